"""pytest plugin (one-off): records every byte vector the pinned test-suite successfully parses or composes,
per library class.  Usage:  cd /repo && PYTHONPATH=/verif/tools /venv/bin/python -m pytest -q -p harvest_plugin
Output: /verif/seeds/seeds.json  {"module.Class": [hex, ...]}"""
import functools
import json
import os

SEEDS = {}
OUT = os.environ.get('HARVEST_OUT', '/verif/seeds/seeds.json')


def _record(cls, data):
    if not cls.__module__.startswith('cryptoparser.'):
        return
    try:
        raw = bytes(data)
    except Exception:  # pylint: disable=broad-except
        return
    if len(raw) > 4096:
        return
    SEEDS.setdefault(cls.__module__ + '.' + cls.__qualname__, set()).add(raw.hex())


def pytest_configure(config):  # pylint: disable=unused-argument
    from cryptoparser.common import parse

    base = parse.ParsableBaseNoABC
    for name in ('parse_exact_size', 'parse_immutable', 'parse_mutable'):
        original = getattr(base, name).__func__

        def make(original):
            @functools.wraps(original)
            def wrapper(cls, parsable):
                snapshot = bytes(parsable)
                result = original(cls, parsable)
                if original.__name__ == 'parse_exact_size':
                    _record(cls, snapshot)
                elif original.__name__ == 'parse_immutable':
                    _record(cls, snapshot[:result[1]])
                else:
                    _record(cls, snapshot[:len(snapshot) - len(parsable)])
                return result
            return classmethod(wrapper)

        setattr(base, name, make(original))


def _wrap_compose(cls):
    if 'compose' not in cls.__dict__ or getattr(cls.__dict__['compose'], '_harvest', False):
        return
    original = cls.__dict__['compose']
    if not callable(original):
        return

    @functools.wraps(original)
    def compose(self, *args, **kwargs):
        result = original(self, *args, **kwargs)
        if isinstance(result, (bytes, bytearray)):
            _record(type(self), result)
        return result

    compose._harvest = True
    try:
        setattr(cls, 'compose', compose)
    except (AttributeError, TypeError):
        pass


def pytest_collection_finish(session):  # pylint: disable=unused-argument
    from cryptoparser.common import parse
    import enum

    todo = [parse.ParsableBaseNoABC]
    seen = set()
    while todo:
        cls = todo.pop()
        if cls in seen:
            continue
        seen.add(cls)
        todo.extend(cls.__subclasses__())
        if cls.__module__.startswith('cryptoparser.') and not issubclass(cls, enum.Enum):
            _wrap_compose(cls)


def pytest_sessionfinish(session, exitstatus):  # pylint: disable=unused-argument
    data = {name: sorted(values) for name, values in sorted(SEEDS.items())}
    with open(OUT, 'w') as handle:
        json.dump(data, handle, indent=0, sort_keys=True)
    print('\nharvested %d classes, %d vectors -> %s' % (len(data), sum(len(v) for v in data.values()), OUT))
