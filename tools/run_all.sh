#!/bin/bash
# runs every claimed check of the given tier one after the other (each uses all 16 cores); logs under build/logs
tier=${1:-quick}
shift
ids=${@:-C01 C02 C03 C04 C05 C06 C07 C08 C09 C10 C11 C12 C13 C14 C15 C16 C17 C18}
cd "$(dirname "$0")/.."
mkdir -p build/logs
for id in $ids; do
    start=$(date +%s)
    SYMCHECK_TAG=${SYMCHECK_TAG_OVERRIDE:-} ./check "$id" --tier "$tier" > "build/logs/$id.$tier.out" 2> "build/logs/$id.$tier.err"
    code=$?
    echo "$id $tier exit=$code wall=$(( $(date +%s) - start ))s $(grep -c '^VIOLATION' build/logs/$id.$tier.out) violations $(grep -c '^KNOWN-FINDING' build/logs/$id.$tier.out) known" | tee -a build/logs/summary.$tier.txt
done
