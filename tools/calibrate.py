#!/usr/bin/env python3
"""one-off: find, per leaf class, the largest L <= 4 for which the unconstrained C02 harness is exhausted within the
quick cap; writes seeds/calibration.json (committed; the quick tier reads it, never writes it)"""
import json
import os
import sys

VERIF = os.path.dirname(os.path.dirname(os.path.abspath(__file__)))
sys.path.insert(0, VERIF)

from symcheck import chx  # noqa
from symcheck.harness import registry, windows  # noqa
from symcheck.runner import run_shards  # noqa


def main():
    chx.enable_truediv([1, 2, 4])
    registry.import_all()
    result = {}
    todo = [registry.class_name(cls) for cls in registry.leaf_parsable_classes()]
    for length in (4, 3, 2):
        calib = {name: length for name in todo}
        shards = [s for s in windows.unconstrained_shards('c02', 'quick', calib, timeout=8)
                  if s.params['CLASS'] in calib]
        results = run_shards(shards)
        done = 0
        for shard in shards:
            res = results[shard.label]
            if res['verdict'] in ('CONFIRMED', 'REFUTED') and res['wall'] <= 12:
                result[shard.params['CLASS']] = length
                done += 1
        todo = [name for name in todo if name not in result]
        print('L=%d: %d decided, %d left' % (length, done, len(todo)), flush=True)
    with open(os.path.join(VERIF, 'seeds', 'calibration.json'), 'w') as handle:
        json.dump(result, handle, indent=0, sort_keys=True)


if __name__ == '__main__':
    main()
