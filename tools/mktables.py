#!/usr/bin/env python3
"""rewrites the quick-tier table of DESIGN.md 10.7 from the committed evidence files"""
import json
import os

VERIF = os.path.dirname(os.path.dirname(os.path.abspath(__file__)))


def main():
    lines = ['| id | wall s | shards | decided | undecided | paths | solver queries | native runs validated | native side '
             'conditions |', '|---|---|---|---|---|---|---|---|---|']
    for number in range(1, 19):
        prop = 'C%02d' % number
        with open(os.path.join(VERIF, 'evidence', prop + '.json')) as handle:
            doc = json.load(handle)
        cov = doc['coverage']
        lines.append('| %s | %d | %d | %d | %d | %d | %d | %d | %d |' % (
            prop, round(doc['wall_s']), cov['shards_total'], cov['shards_decided'], cov['shards_inconclusive'],
            cov['states'], cov['transitions'], cov['traces_validated_against_impl'],
            len(cov['side_conditions_concrete'])))
    path = os.path.join(VERIF, 'DESIGN.md')
    text = open(path).read()
    begin, end = '<!-- QUICK-TABLE-BEGIN -->\n', '<!-- QUICK-TABLE-END -->'
    head, rest = text.split(begin)
    _, tail = rest.split(end)
    open(path, 'w').write(head + begin + '\n'.join(lines) + '\n' + end + tail)


if __name__ == '__main__':
    main()
