#!/usr/bin/env python3
"""Confirm a seeded change (patch.diff + demo.py) in a scratch worktree and, optionally, run a check against it.

  tools/seedcheck.py confirm <dir>            # suite unchanged, demo passes without / fails with the patch
  tools/seedcheck.py detect  <dir> <PROP> [--tier quick] [--only x]   # apply to /repo, run ./check, undo
"""
import json
import os
import re
import subprocess
import sys
import tempfile

REPO = '/repo'
VERIF = os.path.dirname(os.path.dirname(os.path.abspath(__file__)))
PYTEST = ['/venv/bin/python', '-m', 'pytest', '-q', '-p', 'no:cacheprovider', '-x', '--deselect',
          'test/httpx/test_header.py::TestCasesBasesHttpHeader']


def sh(cmd, cwd=None, timeout=1800):
    return subprocess.run(cmd, cwd=cwd, capture_output=True, text=True, timeout=timeout, check=False)


def suite(cwd):
    res = sh(['/venv/bin/python', '-m', 'pytest', '-q', '-p', 'no:cacheprovider', '-rf'], cwd=cwd)
    failed = sorted(set(re.findall(r'^FAILED (\S+)', res.stdout, re.M)))
    summary = res.stdout.strip().splitlines()[-1] if res.stdout.strip() else res.stderr[-300:]
    return failed, re.sub(r' in [\d.]+s.*', '', summary)


def confirm(directory):
    patch = os.path.join(directory, 'patch.diff')
    demo = os.path.join(directory, 'demo.py')
    work = tempfile.mkdtemp(prefix='seedwt-', dir='/tmp')
    os.rmdir(work)
    out = {'dir': directory}
    try:
        res = sh(['git', '-C', REPO, 'worktree', 'add', '-q', '--detach', work, 'HEAD'])
        assert res.returncode == 0, res.stderr
        base_failed, base_summary = suite(work)
        demo_clean = sh(['/venv/bin/python', demo], cwd=work, timeout=600)
        res = sh(['git', 'apply', '--recount', patch], cwd=work)
        if res.returncode != 0:
            res = sh(['patch', '-p1', '--no-backup-if-mismatch', '-i', patch], cwd=work)
        out['applies'] = res.returncode == 0
        if not out['applies']:
            out['apply_error'] = (res.stdout + res.stderr)[-400:]
            return out
        mut_failed, mut_summary = suite(work)
        demo_mut = sh(['/venv/bin/python', demo], cwd=work, timeout=600)
        out.update(
            suite_baseline=base_summary, suite_mutant=mut_summary, suite_same=(base_failed == mut_failed and
                                                                              base_summary == mut_summary),
            demo_clean_exit=demo_clean.returncode, demo_clean_out=demo_clean.stdout.strip()[-200:],
            demo_mutant_exit=demo_mut.returncode, demo_mutant_out=demo_mut.stdout.strip()[-300:],
        )
        out['confirmed'] = bool(out['suite_same'] and demo_clean.returncode == 0 and demo_mut.returncode != 0)
        # refresh the stored patch so that it applies to the current HEAD exactly
        diff = sh(['git', 'diff'], cwd=work).stdout
        out['rebased_patch'] = diff
        return out
    finally:
        sh(['git', '-C', REPO, 'worktree', 'remove', '--force', work])
        sh(['rm', '-rf', work])


def detect(directory, prop, extra):
    """run ./check against the change.  Default: scratch worktree of /repo HEAD with the patch applied, put in front
    of the import path (so several detections can run side by side and /repo stays untouched); with --in-repo the
    patch is applied to /repo itself (git -C /repo apply; ./check; git -C /repo checkout -- .)"""
    patch = os.path.join(directory, 'patch.diff')
    in_repo = '--in-repo' in extra
    extra = [item for item in extra if item != '--in-repo']
    env = dict(os.environ)
    if in_repo:
        status = sh(['git', '-C', REPO, 'status', '--porcelain', '--untracked-files=no']).stdout.strip()
        assert not status, '/repo is not clean: %s' % status
        target = REPO
    else:
        target = tempfile.mkdtemp(prefix='seedwt-', dir='/tmp')
        os.rmdir(target)
        res = sh(['git', '-C', REPO, 'worktree', 'add', '-q', '--detach', target, 'HEAD'])
        assert res.returncode == 0, res.stderr
        env['SYMCHECK_REPO'] = target
        env['SYMCHECK_TAG'] = os.path.basename(target)
    try:
        res = sh(['git', 'apply', '--recount', patch], cwd=target)
        if res.returncode != 0:
            res = sh(['patch', '-p1', '--no-backup-if-mismatch', '-i', patch], cwd=target)
        assert res.returncode == 0, res.stdout + res.stderr
        run = subprocess.run([os.path.join(VERIF, 'check'), prop] + extra, cwd=VERIF, capture_output=True, text=True,
                             timeout=7200, check=False, env=env)
    finally:
        if in_repo:
            sh(['git', '-C', REPO, 'checkout', '--', '.'])
        else:
            sh(['git', '-C', REPO, 'worktree', 'remove', '--force', target])
            sh(['rm', '-rf', target])
    lines = [line for line in run.stdout.splitlines() if line.startswith(('VIOLATION', 'KNOWN-FINDING'))]
    errs = [line for line in run.stderr.splitlines() if line.startswith('HARNESS-ERROR')]
    return {'dir': directory, 'property': prop, 'exit': run.returncode, 'violations': lines[:8],
            'violation_details': [l.strip() for l in run.stderr.splitlines() if l.startswith('    ')][:8],
            'harness_errors': errs[:5], 'in_repo': in_repo}


def keep(directory, prop, name, extra):
    """confirm + detect, then store under /verif/seeded/<name>/"""
    conf = confirm(directory)
    rebased = conf.pop('rebased_patch', None)
    if not conf.get('confirmed'):
        print(json.dumps(conf, indent=1))
        print('NOT CONFIRMED - not kept')
        return
    det = detect(directory, prop, extra)
    target = os.path.join(VERIF, 'seeded', name)
    os.makedirs(target, exist_ok=True)
    with open(os.path.join(target, 'patch.diff'), 'w') as handle:
        handle.write(rebased)
    for fname in ('demo.py', 'notes.md'):
        src = os.path.join(directory, fname)
        if os.path.exists(src):
            with open(src) as inp, open(os.path.join(target, fname), 'w') as outp:
                outp.write(inp.read())
    notes = open(os.path.join(directory, 'notes.md')).read() if os.path.exists(os.path.join(directory, 'notes.md')) else ''
    head = sh(['git', '-C', REPO, 'rev-parse', '--short', 'HEAD']).stdout.strip()
    meta = {
        'breaks_property': prop,
        'needs_to_manifest': notes.strip()[:1500],
        'confirmed_on_repo_head': head,
        'ran': [
            'scratch worktree of /repo HEAD: pytest outcome with patch == baseline (%s)' % conf['suite_mutant'],
            'demo.py on clean worktree: exit %d; with patch: exit %d (%s)' % (
                conf['demo_clean_exit'], conf['demo_mutant_exit'], conf['demo_mutant_out'][:200]),
            ('git -C /repo apply patch.diff; ./check %s %s; git -C /repo checkout -- .' if det.get('in_repo') else
             'scratch worktree of /repo HEAD + patch.diff, SYMCHECK_REPO=<worktree> ./check %s %s') % (
                 prop, ' '.join(e for e in extra if e != '--in-repo')),
        ],
        'check_exit': det['exit'],
        'detected': det['exit'] == 1 and bool(det['violations']),
        'violations': det['violation_details'][:4],
        'harness_errors': det['harness_errors'][:2],
    }
    with open(os.path.join(target, 'meta.json'), 'w') as handle:
        json.dump(meta, handle, indent=1)
    print(name, 'detected' if meta['detected'] else 'MISSED', 'exit', det['exit'], meta['violations'][:2],
          det['harness_errors'][:1])


def main():
    mode, directory = sys.argv[1], sys.argv[2]
    if mode == 'keep':
        keep(directory, sys.argv[3], sys.argv[4], sys.argv[5:])
        return
    if mode == 'confirm':
        out = confirm(directory)
        rebased = out.pop('rebased_patch', None)
        print(json.dumps(out, indent=1))
        if out.get('confirmed') and rebased and '--write' in sys.argv:
            with open(os.path.join(directory, 'patch.diff'), 'w') as handle:
                handle.write(rebased)
    else:
        print(json.dumps(detect(directory, sys.argv[3], sys.argv[4:]), indent=1))


if __name__ == '__main__':
    main()
