#!/usr/bin/env python3
"""Confirm a seeded change (patch.diff + demo.py) in a scratch worktree and, optionally, run a check against it.

  tools/seedcheck.py confirm <dir>            # suite unchanged, demo passes without / fails with the patch
  tools/seedcheck.py detect  <dir> <PROP> [--tier quick] [--only x]   # apply to /repo, run ./check, undo
"""
import json
import os
import re
import subprocess
import sys
import tempfile

REPO = '/repo'
VERIF = os.path.dirname(os.path.dirname(os.path.abspath(__file__)))
PYTEST = ['/venv/bin/python', '-m', 'pytest', '-q', '-p', 'no:cacheprovider', '-x', '--deselect',
          'test/httpx/test_header.py::TestCasesBasesHttpHeader']


def sh(cmd, cwd=None, timeout=1800):
    return subprocess.run(cmd, cwd=cwd, capture_output=True, text=True, timeout=timeout, check=False)


def suite(cwd):
    res = sh(['/venv/bin/python', '-m', 'pytest', '-q', '-p', 'no:cacheprovider', '-rf'], cwd=cwd)
    failed = sorted(set(re.findall(r'^FAILED (\S+)', res.stdout, re.M)))
    summary = res.stdout.strip().splitlines()[-1] if res.stdout.strip() else res.stderr[-300:]
    return failed, re.sub(r' in [\d.]+s.*', '', summary)


def confirm(directory):
    patch = os.path.join(directory, 'patch.diff')
    demo = os.path.join(directory, 'demo.py')
    work = tempfile.mkdtemp(prefix='seedwt-', dir='/tmp')
    os.rmdir(work)
    out = {'dir': directory}
    try:
        res = sh(['git', '-C', REPO, 'worktree', 'add', '-q', '--detach', work, 'HEAD'])
        assert res.returncode == 0, res.stderr
        base_failed, base_summary = suite(work)
        demo_clean = sh(['/venv/bin/python', demo], cwd=work, timeout=600)
        res = sh(['git', 'apply', '--recount', patch], cwd=work)
        if res.returncode != 0:
            res = sh(['patch', '-p1', '--no-backup-if-mismatch', '-i', patch], cwd=work)
        out['applies'] = res.returncode == 0
        if not out['applies']:
            out['apply_error'] = (res.stdout + res.stderr)[-400:]
            return out
        mut_failed, mut_summary = suite(work)
        demo_mut = sh(['/venv/bin/python', demo], cwd=work, timeout=600)
        out.update(
            suite_baseline=base_summary, suite_mutant=mut_summary, suite_same=(base_failed == mut_failed and
                                                                              base_summary == mut_summary),
            demo_clean_exit=demo_clean.returncode, demo_clean_out=demo_clean.stdout.strip()[-200:],
            demo_mutant_exit=demo_mut.returncode, demo_mutant_out=demo_mut.stdout.strip()[-300:],
        )
        out['confirmed'] = bool(out['suite_same'] and demo_clean.returncode == 0 and demo_mut.returncode != 0)
        # refresh the stored patch so that it applies to the current HEAD exactly
        diff = sh(['git', 'diff'], cwd=work).stdout
        out['rebased_patch'] = diff
        return out
    finally:
        sh(['git', '-C', REPO, 'worktree', 'remove', '--force', work])
        sh(['rm', '-rf', work])


def detect(directory, prop, extra):
    patch = os.path.join(directory, 'patch.diff')
    status = sh(['git', '-C', REPO, 'status', '--porcelain', '--untracked-files=no']).stdout.strip()
    assert not status, '/repo is not clean: %s' % status
    res = sh(['git', '-C', REPO, 'apply', '--recount', patch])
    if res.returncode != 0:
        res = sh(['patch', '-p1', '--no-backup-if-mismatch', '-i', patch], cwd=REPO)
    assert res.returncode == 0, res.stdout + res.stderr
    try:
        run = sh([os.path.join(VERIF, 'check'), prop] + extra, cwd=VERIF, timeout=7200)
    finally:
        sh(['git', '-C', REPO, 'checkout', '--', '.'])
    lines = [line for line in run.stdout.splitlines() if line.startswith(('VIOLATION', 'KNOWN-FINDING'))]
    errs = [line for line in run.stderr.splitlines() if line.startswith('HARNESS-ERROR')]
    return {'dir': directory, 'property': prop, 'exit': run.returncode, 'violations': lines[:8],
            'violation_details': [l.strip() for l in run.stderr.splitlines() if l.startswith('    ')][:8],
            'harness_errors': errs[:5]}


def main():
    mode, directory = sys.argv[1], sys.argv[2]
    if mode == 'confirm':
        out = confirm(directory)
        rebased = out.pop('rebased_patch', None)
        print(json.dumps(out, indent=1))
        if out.get('confirmed') and rebased and '--write' in sys.argv:
            with open(os.path.join(directory, 'patch.diff'), 'w') as handle:
                handle.write(rebased)
    else:
        print(json.dumps(detect(directory, sys.argv[3], sys.argv[4:]), indent=1))


if __name__ == '__main__':
    main()
