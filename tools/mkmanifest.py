#!/usr/bin/env python3
"""regenerates MANIFEST.json from the table below (kept in one place so the file is always valid)"""
import json
import os
import sys

VERIF = os.path.dirname(os.path.dirname(os.path.abspath(__file__)))
sys.path.insert(0, VERIF)

TECH = ('bounded symbolic execution of the real Python code (CrossHair 0.0.110 on z3 5.1, chx extension layer), '
        'one solver-decided shard per stated bound; counterexamples replayed natively')

CLAIMED = {
    'C11': ('ComposerBinary/ParserBinary numeric, array, flag, fixed and SSH mpint and timestamp primitives are decided '
            'for every value inside the stated widths (all four byte orders; mpints up to 2^40 quick / 2^64 thorough; '
            'timestamps: every time of day on sample dates x every POSIX clock configuration through a symbolic model '
            'of the time module); plus a natively enumerated list of real zoneinfo zones',
            'S-tz (time module model, realisable by POSIX TZ strings), S-dt (integer datetime shim inside '
            'parse_timestamp), NATIVE = little endian on this host; values wider than the bound are outside', '5 C11'),
}

CLAIMED['C17'] = (
    'trichotomy, derived-operator consistency, transitivity (all triples), the prescribed chain and hash consistency '
    'are decided by the solver over symbolic version codes constrained to the current TlsVersion table, running the '
    'real TlsProtocolVersion methods on stand-in members; a native side condition ties the stand-in to the real members',
    'stand-in member objects (object.__new__ + symbolic code); codes unique per member (checked natively each run)',
    '5 C17')

CLAIMED['C12'] = (
    'inductive step decided by the solver: from every valid vector (K<=3 quick / 4 thorough items, fixed- and '
    'variable-size items, MIN/MAX bounds themselves symbolic) one operation with symbolic arguments (constructor, '
    'append, insert, extend, +=, pop, remove, del[i], del[a:b], del[a:b:s], v[i]=x, v[a:b]=xs, v[a:b:s]=xs with a list, a '
    'one-shot iterator or a tuple on the right, reverse, clear) leaves contents == '
    'plain-list model, recorded size == sum of item sizes within bounds, refuses exactly when the result would leave '
    'the bounds and then changes nothing; one step from an arbitrary invariant state covers histories of any length. '
    'Native side condition: every library vector class x seed vectors, recorded size == encoded body == prefix',
    'harness subclasses of Vector/VectorParsable with param objects built without their constructor; item values '
    '0..8; slice positions -4..4, steps 1, 2, -1; library classes only through their seed vectors (concrete)', '5 C12')

CLAIMED['C03'] = (
    'for every framing class (TLS record, SSL 2.0 record, TLS handshake messages, SSH packets and banner, MySQL, TPKT, '
    'COTP, OpenVPN-TCP, PostgreSQL, LDAP short and long form) the solver decides, with the declared length a full-width '
    'symbolic integer and symbolic body/suffix bytes: 0 < n <= len, n == length declared by a reference header encoder '
    'written from the specification, same object and n for the first n bytes alone, followed by a symbolic suffix, or '
    'followed by 40000 bytes; parse_mutable removes exactly n bytes; parse_exact_size succeeds iff n == len; a failed '
    'parse leaves the buffer untouched',
    'bodies <= 4 bytes (quick) / 6 (thorough), suffix <= 2; inner messages of SSH/SSL2/handshake frames are concrete '
    'seed messages; reference header encoders in symcheck/harness/framing.py are trusted', '5 C03')
CLAIMED['C04'] = (
    'premises of the reassembly argument decided by the solver per framing class: every proper prefix of a frame (cuts '
    'inside header and length fields, header integers full width) is answered with not-enough-data asking for >= 1 and '
    '<= the bytes really missing, a proper prefix is never accepted, a complete frame is never answered with '
    'not-enough-data; frames from the real compose() with every cut position; plus the reader loop itself over two '
    'composed records with symbolic payloads and symbolic delivery surplus',
    'payloads <= 4 bytes, two records, surplus <= 2 (quick) / 3 (thorough) bytes on the first three deliveries; '
    'longer streams follow by the induction sketched in DESIGN.md 5 C04, which is not mechanised', '5 C04')

CLAIMED['C02'] = (
    'for every leaf parsable class of the current tree: every byte string up to a calibrated length (<= 4 quick, 6 '
    'thorough), every value of single bytes (quick: 2 positions; thorough: every position, plus 2-byte windows) of '
    'accepted seed vectors harvested from the pinned suite, text and key formats behind a concrete required prefix '
    '(incl. values handed to asn1crypto / idna), through parse_immutable, parse_mutable(bytearray) and '
    'parse_exact_size: the solver shows that no exception other than NotEnoughData, TooMuchData, InvalidValue, '
    'InvalidType escapes. Natively: every proper prefix of the seed vectors, ~60 hostile well-formed text values '
    '(overflowing magnitudes, dates at the ends of the calendar), and all 256 values of every single-byte window the '
    'engine left undecided',
    'exceptions raised while cryptodatahub formats InvalidValue messages are outside (X3 stub); text classes in the '
    'quick tier range over 22 boundary characters per window instead of 256; classes that do not exhaust within the '
    'cap are reported INCONCLUSIVE and not counted as decided', '5 C02')

CLAIMED['C01'] = (
    'K: objects of ~40 message/record/extension/key-exchange/DNS/RDP/MySQL/OpenVPN classes built through the real '
    'constructors from symbolic integers (full field width), symbolic opaque bytes and every enum member: compose is '
    'accepted by the same class, consumes every byte and yields a field-by-field equal object. P: for every seeded class '
    'the same chain on the objects parsed from single-byte windows of accepted vectors. Natively: objects built '
    'with every defaulted constructor argument left out, SSH banner lengths 250..255',
    'opaque bytes <= 3 (quick) / 4 (thorough); one symbolic enum dimension per shard; quick tier: three index ranges '
    'per large enum and two window positions per class; X.509 objects only through seed vectors; deep_eq compares '
    'library objects field by field and third-party values with their own ==', '5 C01')
CLAIMED['C05'] = (
    'chain parse -> compose -> parse -> compose decided on single-byte windows of every seeded class plus shape '
    'generators for accepted non-canonical inputs: SCSV markers at every position of a client hello, multi-string TXT, '
    'IDNA A-labels, SPF prefix/cidr lengths over their whole range, unknown flag bits (4 free bits per shard); HTTP '
    'dates with zone offsets and the 255/256 byte TXT boundary are enumerated natively, not solver-decided',
    'dateutil cannot be executed symbolically (DESIGN.md 5 C05): the date clause is a concrete list; windows as C01',
    '5 C05')

CLAIMED['C10'] = (
    'for every NByteEnumParsable factory of the current tree the code is a solver variable over its whole 1/2/3/4-byte '
    'space: a code decodes iff it is defined, to the member carrying it, and re-encodes to the same bytes; inside every '
    'enum-coded vector ([code, known] and [known, code]) nothing is dropped or merged, unknown codes are preserved, the '
    'GREASE classification equals the RFC 8701 tables, the vector re-composes to the same bytes; IntEnum header bytes '
    '(alert level/description pairs, content type, SSH reason, SSL2 message type, MySQL charset) through their messages; '
    'ALPN/NPN names extended by symbolic bytes; SSH name-lists with unknown names. Alias and string-enum member checks '
    'are enumerated natively (finite tables)',
    'the cryptodatahub tables are the reference for which codes are defined; quick tier: the [known, code] order of '
    '16-bit vectors covers a seed-rotated quarter of the space', '5 C10')

CLAIMED['C06'] = (
    'against an encoder written independently from the RFC text (symcheck/refs/tls_ref.py): TLS records (every content '
    'type x version, symbolic fragment, 2^14 and 2^16-1 boundaries), client hello (version, each cipher suite position '
    'over the 16-bit space incl. SCSV/GREASE/unknown, session id 0/1/32, compression, extension block absent/empty), '
    'server hello, 14 extension types with symbolic codes/opaque parts, certificate chain, certificate request with '
    'and without signature algorithms, certificate status, server key exchange, hello done, CCS, SSL 2.0 error and '
    'client hello: parse(ref(fields)) has exactly the fields and composes back to ref(fields); constructed objects '
    'compose to ref(fields). Native side condition: floor/ceiling/prefix width of every TLS vector class against the '
    'RFC table of the reference',
    'one symbolic dimension per shard; quick tier covers seed-rotated code ranges for 16-bit spaces (ranges holding '
    'the SCSV and first GREASE values always included); the reference encoder is trusted', '5 C06')

CLAIMED['C09'] = (
    'against encoders written from the protocol documents (symcheck/refs/apps_ref.py): MySQL HandshakeV10 and SSLRequest '
    '(both formats) with every subset of 4 capability/status bits per shard over all 25 capability bits, every character '
    'set, connection id, packet size and short strings; MySQL packet header; TPKT/X.224 CR and CC for all reference '
    'pairs with the type of the parsed object checked against the PDU code (and the other class rejecting it); RDP '
    'negotiation request/response over every flag and protocol subset with the flag enum type checked; OpenVPN '
    'control/ack/reset packets (ids, ack arrays of 0..3 entries, payload; 0..255 entries natively) incl. the variant '
    'dispatcher and the TCP wrapper; PostgreSQL SSLRequest over all 2^64 inputs; LDAP StartTLS request/response for '
    'every message id and result code 0..127, each rejected by the other class',
    'flag words vary over 4 free bits per shard (the subset is picked by a symbolic index: fork-exhaustive); 64-bit '
    'OpenVPN ids vary in their low two bytes or their top byte; the reference encoders are trusted', '5 C09')

CLAIMED['C07'] = (
    'against an encoder written from RFC 4251/4253/4419/8709 and PROTOCOL.certkeys (symcheck/refs/ssh_ref.py): the '
    'padding rule for every payload length 5..35005 (symbolic key bytes), the binary packet layout, name-lists with '
    'known and unknown names (order, unknown names, uint32 prefix), KEXINIT field order / first_kex_packet_follows / '
    'reserved, DH / GEX / DISCONNECT / UNIMPLEMENTED messages with full-width 32-bit fields, ssh-rsa / ssh-dss / '
    'ssh-ed25519 public key blobs (mpints as canonical two-complement), v01 certificates (serial, type, validity, key '
    'id, principals, nonce, critical options, extensions in order), the identification string: parse(ref(fields)) has '
    'the fields and composes back to ref(fields); constructed objects compose to ref(fields)',
    'S-key: PublicKey replaced by a parameter container (checked natively against the real PublicKey on 50 keys); '
    'S-dt integer instants for certificate validity; RSA n < 2^32 (quick) / 2^64 (thorough), DSS parameters < 2^24, '
    'unknown names of 1 symbolic character; ECDSA and X.509 host keys only through seed windows (C01/C02)', '5 C07')
CLAIMED['C16'] = (
    'S-hash: with MD5 / hash_bytes replaced by recording stubs the solver decides that HASSH and HASSH-server feed the '
    'digest exactly kex;enc;mac;comp joined from the message lists for KEXINITs whose hashed lists (alone and in '
    'client/server pairs) are [], [x] or [x, known] with x known or an unknown 1-character name, and that the three key '
    'fingerprints are taken over exactly the RFC 4253 blob of the reference for ssh-rsa, ssh-dss, ssh-ed25519 keys and '
    'v01 certificates; the rendering (hash name, colon, base64 / colon-hex) with a symbolic digest byte, and natively '
    'for every (position, value); real hashlib on concrete inputs ties the stubs to reality',
    'the digests themselves are uninterpreted (S-hash); known_hosts base64 is decided on concrete blobs only (base64 of '
    'a symbolic blob is realised value by value); that parsing delivers the wire names in wire order is C07', '5 C16')

CLAIMED['C08'] = (
    'key tag: the real DnsRecordDnskey.key_tag over a symbolic RDATA of every length 4..12 (16 thorough) equals RFC 4034 '
    'Appendix B, and the B.1 rule for algorithm 1 over every modulus < 2^40; layouts against an independent encoder '
    '(symcheck/refs/dns_ref.py): DNSKEY RSA (RFC 3110 exponent-length form, symbolic exponent and modulus, every named '
    'flag subset), ECDSA P-256/P-384 coordinates with leading zeros, Ed25519, DS (every algorithm / digest type / tag), '
    'RRSIG (every defined and private type covered, labels, TTL, key tag, 32-bit timestamps), MX, TXT, names; native '
    'side condition with the real PublicKey for the RFC 6605 / 8080 key sizes',
    'S-key container for PublicKey (key_size modelled as the modulus length); S-dt integer instants for RRSIG '
    'timestamps (compose side natively); RSA modulus 4 bytes (quick) / up to 6 (thorough); IDNA beyond ASCII outside',
    '5 C08')

CLAIMED['C15'] = (
    'against a JA3 implementation that walks the wire bytes itself: one symbolic dimension per shard over its code space '
    '- protocol version, the cipher suite at each position (known, unknown, GREASE, SCSV), the type of an unparsed / '
    'unknown / GREASE extension at each position, a supported group, a point format, with and without the groups / '
    'point-format extensions - parse(b).ja3() equals the reference item by item and is unchanged by compose + parse; '
    'one step of parse history with a symbolic integer (first a psk mode, then extension type and group of hello B); '
    'hellos carrying every extension vector of the seed corpus, and all 0..255 through one- and two-byte code spaces '
    'in one process (both orders), are compared natively',
    'S-str: str() of a symbolic int is an opaque token, the strings are compared item-wise as integers; quick tier '
    'covers the code ranges holding SCSV, GREASE and common values plus a seed-rotated range (thorough: whole space); '
    'extension bodies of types the library parses in detail come from the seed corpus (concrete)', '5 C15')

CLAIMED['C13'] = (
    '(a) for every seeded class an object parsed from an accepted vector with one symbolic byte: every observer the '
    'class has (compose, as_markdown, ja3, hassh, hassh_server, key_tag, _asdict) is run, then all again in reverse '
    'order - results repeat and the object stays field-by-field equal to an independently parsed twin; (b) parse from a '
    'bytearray with a symbolic byte, then overwrite a symbolic index of the buffer with a symbolic value and clear it: '
    'the object and its compose() are unchanged. Natively enumerated: as_json / fingerprints on the seed objects, the '
    'client hello at its cipher-suite ceiling with both SCSV flags, and shared container state between instances '
    'built from defaults of every seeded attrs class',
    'single-byte windows (quick: one rotated position per class, text classes over 22 boundary characters); sharing '
    'of scalar component objects (re-assigning .value of a shared default component) is not looked at, only shared '
    'containers; (c) and the ceiling case are fork-exhaustive / native, with nothing for the solver to decide', '5 C13')

CLAIMED['C14'] = (
    'the recursion json.dumps performs - JSON-native values as they are, everything else through the encoder hook the '
    'library installs (Serializable._json_traverse + _json_result), applied again to its result - is run on the real '
    'code and must end in a value closed under JSON types; as_markdown / _markdown_result must return str; both must be '
    'identical for the object and for parse(compose(object)). Objects: (a) parsed from an accepted vector with one '
    'symbolic byte, every seeded class; (b) built by the real constructors from symbolic integers, enum indices and '
    'opaque bytes; (c) a MySQL handshake whose set-valued field is filled in two insertion orders with a symbolic '
    'member. Natively: real json.dumps/json.loads in every replay and differential run, every member of every enum '
    'class, all ordered member triples of the set-valued fields, and 3 serialisation orders x 4 PYTHONHASHSEED values '
    'in fresh interpreters over the seed objects',
    'single-byte windows and the listed constructors (quick: one rotated position per class, 6 rotated constructors); '
    'json.dumps itself is not executed symbolically (CrossHair models json without the patched default hook): its '
    'recursion is restated in 20 lines (_tree) and compared with the real json.dumps natively; X7 recompiles three '
    'Serializable functions with hasattr(x, "__dict__") answered as the native value would', '5 C14')

CLAIMED['C18'] = (
    'per type a spelling model taken from the governing RFC (elements, separator, which deviations the RFC declares '
    'insignificant, clause quoted per axis): the canonical spelling and a variant with ONE deviation - a letter of a '
    'name in the other case, a run of optional whitespace at a separator / around "=" / after the colon / before '
    'CRLF, extra empty list elements, two independent elements swapped, a value in the other token/quoted-string '
    'form, an added unknown element - are parsed by the real parser and must give field-by-field equal objects; '
    'position, character and run length of the deviation are the symbolic inputs. Types: HSTS, Expect-CT, '
    'Expect-Staple, HPKP, Cache-Control, Set-Cookie, Content-Type, X-XSS-Protection, CSP, NEL, DMARC, MTA-STS, TLSRPT, '
    'SPF (23 models incl. boundary-value and quoted variants), three field lines, and a 12-field header block (every field equals the field parsed alone; a field renamed '
    'to an unknown name stays as an unparsed field with the same value and leaves the others alone). Natively: every '
    'deviation of every axis of every model',
    'one deviation at a time from one sample value per type; whitespace runs <= 3; quick: the first and one rotated '
    'position range per axis and one window of 8 name characters, thorough: all. Not demanded, because the RFCs do '
    'not declare it insignificant: case of DMARC tags (RFC 6376 3.2), of MTA-STS / TLSRPT names (%s strings), of the '
    'SPF version; order of SPF terms; whitespace around "=" in HTTP parameters', '5 C18')

NOT_APPLICABLE = {
    'C19': 'asymptotic claim (work linear in input size for n, 2n, 4n, ...): a bounded symbolic execution fixes the '
           'input size, so a pass says nothing about growth; the total-work bound needs an amortised argument over '
           'nested scans, i.e. a proof-assistant obligation (DESIGN.md section 6)',
}

PENDING = 'harness not yet built in this revision (planned, see DESIGN.md section 5)'


def main():
    props = [json.loads(line)['id'] for line in open(os.path.join(VERIF, 'properties.jsonl'))]
    checks = []
    for pid in props:
        if pid not in CLAIMED:
            continue
        text, note, ref = CLAIMED[pid]
        checks.append({
            'property_id': pid,
            'quick_cmd': './check %s --tier quick' % pid,
            'thorough_cmd': './check %s --tier thorough' % pid,
            'evidence_file': '/verif/evidence/%s.json' % pid,
            'replay_cmd_template': './check --replay {path}',
            'engine': 'symcheck',
            'level_claimed': {'category': 'model_checking', 'text': text, 'design_ref': 'DESIGN.md section ' + ref},
            'level_note': note,
            'technique': TECH,
        })
    not_applicable = []
    for pid in props:
        if pid in CLAIMED:
            continue
        not_applicable.append({'property_id': pid, 'reason': NOT_APPLICABLE.get(pid, PENDING)})
    manifest = {
        'version': 1,
        'setup_cmd': './check --setup',
        'hooks': {
            'guard': 'CRYPTOPARSER_VERIF',
            'enable': 'no hook is needed: harnesses drive the public entry points of the unmodified /repo tree '
                      '(the guard name is reserved, no source commit uses it)',
            'baseline_off_cmd': 'cd /repo && /venv/bin/python -m pytest -ra -q -p no:cacheprovider --timeout=900 '
                                '--continue-on-collection-errors',
            'source_commits': [],
            'add_only': True,
        },
        'engines': [{
            'name': 'symcheck', 'path': '/verif/symcheck',
            'serves_properties': sorted(CLAIMED),
            'kind_free_text': 'CrossHair symbolic execution of /repo on z3, sharded over 16 processes; lemma discharge '
                              'for the extension layer with z3; native replay of every counterexample',
        }],
        'checks': checks,
        'not_applicable': not_applicable,
        'notes': 'Exit codes: 0 no unlisted violation, 1 VIOLATION, 3 harness error. known_findings.json lists '
                 'recorded defects (KNOWN-FINDING lines) and repaired ones (fixed: entries, which suppress nothing).',
    }
    with open(os.path.join(VERIF, 'MANIFEST.json'), 'w') as handle:
        json.dump(manifest, handle, indent=1)
    print('checks:', [c['property_id'] for c in checks])


if __name__ == '__main__':
    main()
