# -*- coding: utf-8 -*-
"""native re-execution of a harness on concrete arguments: no CrossHair, no stubs of chx"""
import importlib
import json
import sys

from symcheck import api


def run_native(shard_d, args):
    module = importlib.import_module(shard_d['module'])
    module.P = dict(shard_d['params'])
    if hasattr(module, 'setup'):
        module.setup(module.P)
    api.TWIN = False
    api.ALLOW_SITES = set()
    api.REACHED = 0
    del api.NOTES[:]
    override = getattr(module, 'replay_' + shard_d['fn'], None)
    fn = getattr(module, shard_d['fn'])
    try:
        value = override(**args) if override else fn(**args)
    except Exception as exc:  # pylint: disable=broad-except
        etype, site = api.raise_site(exc)
        if isinstance(exc, api.Escaped):
            etype, site = exc.etype, exc.site_fn
        return {'outcome': 'exception', 'type': etype, 'site': [etype, site], 'message': str(exc)[:300],
                'trace': api.format_exc(exc), 'notes': list(api.NOTES)}
    return {'outcome': 'true' if value else 'false', 'reached': api.REACHED, 'notes': list(api.NOTES)}


def replay_file(path):
    from symcheck.api import decode_args  # pylint: disable=import-outside-toplevel
    with open(path) as handle:
        data = json.load(handle)
    res = run_native(data['shard'], decode_args(data['args']))
    print(json.dumps(res, indent=1))
    if res['outcome'] in ('false', 'exception'):
        print('VIOLATION property=%s replay=%s' % (data.get('property'), path))
        return 1
    return 0


def _sweep_one(shard_d):
    """all values of the single byte-valued argument of a window harness, natively; returns the failing ones"""
    alphabet = shard_d['params'].get('ALPHABET') or list(range(256))
    failing, ran = [], 0
    for val in alphabet:
        res = run_native(shard_d, {'val': val})
        ran += 1
        if res['outcome'] in ('false', 'exception'):
            failing.append([val, res])
            if len(failing) >= 4:
                break
    return shard_d['label'], ran, failing


def sweep(shards):
    import multiprocessing  # pylint: disable=import-outside-toplevel
    from symcheck.harness import registry  # pylint: disable=import-outside-toplevel
    registry.import_all()
    with multiprocessing.get_context('fork').Pool(16) as pool:
        return pool.map(_sweep_one, shards, chunksize=1)


def main():
    from symcheck.api import decode_args  # pylint: disable=import-outside-toplevel
    if '--sweep' in sys.argv:
        print(json.dumps(sweep(json.loads(sys.stdin.read())['shards'])))
        return
    data = json.loads(sys.stdin.read())
    res = run_native(data['shard'], decode_args(data['args']))
    print(json.dumps(res))


if __name__ == '__main__':
    main()
