# -*- coding: utf-8 -*-
"""C05 - re-serialising an accepted input is a stable canonical form.

chain(b): b accepted => o1.compose() succeeds, is accepted again by parse_exact_size, parses to a
field-by-field equal object o2, and o2.compose() == o1.compose().

Windows over the seed corpus ('rt' mode) plus shape generators for accepted-but-not-canonical inputs.
"""
from symcheck import api
from symcheck.api import deep_eq, parse_errors, reach
from symcheck.harness import windows
from symcheck.runner import Shard

MOD = __name__
P = {}
PARSE_ERRORS = parse_errors()


def _cls(path):
    from symcheck.harness import registry  # pylint: disable=import-outside-toplevel
    return registry.resolve(path)


def _chain(cls, data):
    try:
        obj = cls.parse_exact_size(data)
    except PARSE_ERRORS:
        return True
    except Exception:  # pylint: disable=broad-except
        return True     # C02's subject
    try:
        composed = bytes(obj.compose())
        obj2 = cls.parse_exact_size(composed)
    except Exception as exc:  # pylint: disable=broad-except
        return api.escaped(exc)
    reach()
    if not deep_eq(obj2, obj):
        api.note('object changed by re-serialisation: %r' % (composed[:80],))
        return False
    return bytes(obj2.compose()) == composed


# --- client hello: SCSV markers anywhere among the cipher suites ---------------------------------------------------

HELLO_HEAD = bytes.fromhex('03035b6cd5800405060700010203040506070001020304050607000102030405060700')   # version..session id
SUITE_POOL = [0x5600, 0x00ff, 0x002f, 0x1301, 0x0a0a, 0x7a7b]


def hello_scsv(idx: int) -> bool:
    """post: _"""
    if not 0 <= idx < len(SUITE_POOL):
        return True
    codes = list(P['CODES'])
    codes[P['POS']] = SUITE_POOL[idx]
    suites = b''.join(bytes([code // 256, code % 256]) for code in codes)
    body = HELLO_HEAD + bytes([0, 2 * len(codes)]) + suites + b'\x01\x00'
    data = b'\x01' + bytes([0, 0, len(body)]) + body
    cls = _cls('cryptoparser.tls.subprotocol.TlsHandshakeClientHello')
    try:
        obj = cls.parse_exact_size(data)
    except PARSE_ERRORS:
        return True
    snapshot = [getattr(suite, 'value').code for suite in obj.cipher_suites]
    first = bytes(obj.compose())
    second = bytes(obj.compose())
    reach()
    if first != second or [getattr(suite, 'value').code for suite in obj.cipher_suites] != snapshot:
        api.note('compose() is not repeatable / changes the message')
        return False
    return _chain(cls, data)


# --- DNS TXT: several character-strings ------------------------------------------------------------------------------

def txt_multi(first: bytes, second: bytes) -> bool:
    """post: _"""
    if len(first) > P['B'] or len(second) > P['B']:
        return True
    for char in first + second:
        if not 32 <= char < 127:
            return True
    data = bytes([len(first)]) + first + bytes([len(second)]) + second
    return _chain(_cls('cryptoparser.dnsrec.record.DnsRecordTxt'), data)


def txt_long():
    """concrete: 255/256 byte boundary of multi-string TXT data"""
    cls = _cls('cryptoparser.dnsrec.record.DnsRecordTxt')
    problems = []
    for sizes in ((255,), (255, 1), (200, 100), (255, 255), (1, 255)):
        data = b''.join(bytes([size]) + b'a' * size for size in sizes)
        try:
            if not _chain(cls, data):
                problems.append('TXT strings %r: re-serialisation changes the value' % (sizes,))
        except Exception as exc:  # pylint: disable=broad-except
            problems.append('TXT strings %r (accepted): compose raises %s' % (sizes, exc))
    return problems


# --- DNS names with A-labels, SPF CIDR lengths ----------------------------------------------------------------------

def dns_name_alabel(label: bytes) -> bool:
    """post: _"""
    if not 1 <= len(label) <= P['B']:
        return True
    for char in label:
        if not (97 <= char <= 122 or 48 <= char <= 57):
            return True
    fixed = P['LABEL'].encode('ascii')
    data = bytes([len(fixed)]) + fixed + bytes([len(label)]) + label + b'\x00'
    return _chain(_cls(P['CLASS']), bytes.fromhex(P.get('PREFIX', '')) + data)


CIDR_TEXT = [str(number).encode('ascii') for number in range(0, 130)]


def spf_cidr(length: int) -> bool:
    """post: _"""
    # one symbolic dimension per shard: FAMILY 4 varies ip4-cidr-length (0..32), FAMILY 6 the ip6 one (0..128)
    family = P['FAMILY']
    if not P['LO'] <= length < P['HI'] or length > (32 if family == 4 else 128):
        return True
    term = P['TERM'].encode('ascii')
    if family == 4:
        term += b'/' + CIDR_TEXT[length] + (b'/64' if P['OTHER'] else b'')
    else:
        term += b'/24/' + CIDR_TEXT[length]    # (the library's dual-cidr spelling: one slash before each length)
    return _chain(_cls('cryptoparser.dnsrec.txt.DnsRecordTxtValueSpf'), b'v=spf1 ' + term + b' -all')


def spf_ip6_prefix(prefix: int) -> bool:
    """post: _"""
    if not (P['LO'] <= prefix < P['HI'] and prefix <= 128):
        return True
    data = b'v=spf1 ip6:' + P['NET'].encode('ascii') + b'/' + CIDR_TEXT[prefix] + b' ~all'
    return _chain(_cls('cryptoparser.dnsrec.txt.DnsRecordTxtValueSpf'), data)


def spf_ip4_prefix(prefix: int) -> bool:
    """post: _"""
    if not (P['LO'] <= prefix < P['HI'] and prefix <= 32):
        return True
    data = b'v=spf1 ip4:' + P['NET'].encode('ascii') + b'/' + CIDR_TEXT[prefix] + b' ~all'
    return _chain(_cls('cryptoparser.dnsrec.txt.DnsRecordTxtValueSpf'), data)


# --- unknown flag bits ----------------------------------------------------------------------------------------------

def flag_word(word: int) -> bool:
    """post: _"""
    bits = P['BITS']
    if not 0 <= word < 2 ** bits:
        return True
    free = P['FREE']
    fixed = P['FIXED']
    # only the FREE bit positions vary (<= 4 per shard): word & ~free == fixed
    if (word | free) != (fixed | free):
        return True
    seed = bytes.fromhex(P['SEED'])
    pos, size = P['POS'], bits // 8
    if P.get('LITTLE'):
        encoded = bytes([(word >> (8 * idx)) % 256 for idx in range(size)])
    else:
        encoded = bytes([(word >> (8 * (size - 1 - idx))) % 256 for idx in range(size)])
    data = seed[:pos] + encoded + seed[pos + size:]
    return _chain(_cls(P['CLASS']), data)


# --- HTTP dates: enumerated, not solver-decided (dateutil cannot be executed symbolically: DESIGN.md 5 C05) -----------

DATE_INPUTS = [
    b'Thu, 01 Jan 1970 00:00:00 GMT', b'Thu, 01 Jan 1970 01:00:00 +0100', b'Thu, 01 Jan 1970 00:00:00 +01:00',
    b'Wed, 21 Oct 2015 07:28:00 -0500', b'Wed, 21 Oct 2015 07:28:00 EST', b'Wed, 21 Oct 2015 07:28:00 UTC',
    b'Wed, 21 Oct 2015 07:28:00', b'Wednesday, 21-Oct-15 07:28:00 GMT', b'Wed Oct 21 07:28:00 2015',
    b'Wed, 21 Oct 2015 07:28:00 +0000', b'Wed, 21 Oct 2015 07:28:00 Z', b'Wed, 21 Oct 2015 07:28:00 +0530',
]


def http_dates():
    """every accepted spelling must re-serialise to the same instant (or be rejected)"""
    problems = []
    for path in ('cryptoparser.common.field.FieldValueDateTime',):
        cls = _cls(path)
        for data in DATE_INPUTS:
            try:
                first = cls.parse_exact_size(data)
            except PARSE_ERRORS:
                continue
            try:
                composed = bytes(first.compose())
                second = cls.parse_exact_size(composed)
            except Exception as exc:  # pylint: disable=broad-except
                problems.append('%r accepted, but re-serialisation fails: %s' % (data, exc))
                continue
            one, two = first.value, second.value
            # the same instant, and the same object: zone-awareness and offset included (a parsed date is kept in GMT)
            same = (one.tzinfo is None) == (two.tzinfo is None) and one == two and one.isoformat() == two.isoformat()
            if not same:
                problems.append('%r parses to %s but re-serialises to %r = %s' % (
                    data, one.isoformat(), composed, two.isoformat()))
            elif bytes(second.compose()) != composed:
                problems.append('%r: second compose differs' % (data,))
    return problems


def sample_args(rng, kwargs):
    out = {}
    for name in kwargs:
        if name.startswith('idx_'):
            out[name] = rng.randrange(0, len(SUITE_POOL))
        elif name == 'count':
            out[name] = rng.randrange(1, 4)
        elif name in ('first', 'second', 'label'):
            out[name] = bytes(rng.choice(b'abz09') for _ in range(rng.randrange(0, 3)))
        elif name in ('length', 'prefix'):
            out[name] = P.get('LO', 0) + rng.randrange(0, 16)
        elif name == 'idx':
            out[name] = rng.randrange(0, len(SUITE_POOL))
        elif name == 'word':
            out[name] = P.get('FIXED', 0) | (rng.randrange(0, 2 ** 16) & P.get('FREE', 0))
    return out


def _free_bit_groups(bits, width=4):
    groups = []
    for low in range(0, bits, width):
        groups.append(sum(1 << pos for pos in range(low, min(low + width, bits))))
    return groups


def shards(tier, seed):
    from symcheck.harness import registry  # pylint: disable=import-outside-toplevel
    out = windows.window_shards('rt', tier, seed, per_seed=2, tag='c')
    for cidx, codes in enumerate(([0x002f], [0x002f, 0x1301, 0xc02f], [0x5600, 0x002f, 0x00ff], [0x00ff, 0x0a0a])):
        for pos in range(len(codes)):
            if tier == 'quick' and cidx in (1, 2) and pos == 1:
                continue
            out.append(Shard(MOD, 'hello_scsv', 'shape/hello_scsv/%d-%d' % (cidx, pos),
                             {'CODES': codes, 'POS': pos}, 400,
                             bounds='client hello with cipher suites %s, the one at position %d ranging over '
                                    '{FALLBACK_SCSV, EMPTY_RENEGOTIATION_INFO_SCSV, two known, GREASE, unknown}' % (
                                        ['%04x' % code for code in codes], pos)))
    out.append(Shard(MOD, 'txt_multi', 'shape/txt_multi', {'B': 2}, 120,
                     bounds='TXT data made of two character-strings of <= 2 symbolic printable bytes each'))
    out.append(Shard(MOD, 'txt_long', 'shape/txt_long', {}, kind='concrete',
                     bounds='TXT data at the 255/256 byte boundary (enumerated natively)'))
    for cls_path, prefix in (('cryptoparser.dnsrec.record.DnsNameUncompressed', ''),
                             ('cryptoparser.dnsrec.record.DnsRecordMx', '000a')):
        for label in ('xn--sland-ysa', 'www'):
            out.append(Shard(MOD, 'dns_name_alabel', 'shape/dns_name/%s/%s' % (cls_path.rsplit('.', 1)[-1], label),
                             {'CLASS': cls_path, 'PREFIX': prefix, 'LABEL': label, 'B': 1}, 150,
                             bounds='name "%s.<1 symbolic [a-z0-9]>."' % label))
    terms = ('a', 'mx', 'a:example.com', 'mx:example.com') if tier == 'thorough' else ('a', 'mx:example.com')
    for term in terms:
        for family, top in ((4, 33), (6, 129)):
            for other in ((False, True) if family == 4 else (True,)):
                step = 11 if family == 4 else 26
                lows = list(range(0, top, step))
                if tier == 'quick':
                    lows = [lows[0], lows[-1]]
                for low in lows:
                    out.append(Shard(MOD, 'spf_cidr', 'shape/spf_cidr/%s/%d%s/%d' % (term, family, 'o' if other else '',
                                                                                  low),
                                     {'TERM': term, 'FAMILY': family, 'OTHER': other, 'LO': low, 'HI': low + step}, 300,
                                     bounds='"%s" with ip%d-cidr-length %d..%d, the other length %s' % (
                                         term, family, low, min(low + step, top) - 1,
                                         'present' if other else 'absent')))
    for low in (range(0, 129, 16) if tier == 'thorough' else (0, 32, 128)):
        out.append(Shard(MOD, 'spf_ip6_prefix', 'shape/spf_ip6/%d' % low, {'NET': '2001:db8::', 'LO': low,
                                                                          'HI': low + (16 if tier == 'thorough' else 4)},
                         300, bounds='ip6:2001:db8::/n for n in %d..' % low))
    for low in (range(0, 33, 8) if tier == 'thorough' else (0, 30)):
        out.append(Shard(MOD, 'spf_ip4_prefix', 'shape/spf_ip4/%d' % low, {'NET': '0.0.0.0', 'LO': low,
                                                                         'HI': low + (8 if tier == 'thorough' else 3)},
                         200, bounds='ip4:0.0.0.0/n for n in %d..' % low))
    # flag words with unknown bits: <= 4 free bits per shard, the rest as in the accepted seed
    words = [
        ('cryptoparser.dnsrec.record.DnsRecordDnskey', 0, 16, False),
        ('cryptoparser.tls.rdp.RDPNegotiationRequest', 1, 8, False),
        ('cryptoparser.tls.rdp.RDPNegotiationRequest', 4, 32, True),
        ('cryptoparser.tls.rdp.RDPNegotiationResponse', 1, 8, False),
    ]
    for path, pos, bits, little in words:
        cls = registry.resolve(path)
        accepted = registry.accepted_seeds(cls) if cls is not None else []
        if not accepted:
            continue
        data = min((item[0] for item in accepted), key=len)
        size = bits // 8
        raw = data[pos:pos + size]
        value = int.from_bytes(raw, 'little' if little else 'big')
        groups = _free_bit_groups(bits)
        if tier == 'quick' and len(groups) > 4:
            groups = groups[:2] + groups[-2:]
        for free in groups:
            out.append(Shard(MOD, 'flag_word', 'shape/flags/%s/p%d/%x' % (path.rsplit('.', 1)[-1], pos, free),
                             {'CLASS': path, 'SEED': data.hex(), 'POS': pos, 'BITS': bits, 'LITTLE': little,
                              'FREE': free, 'FIXED': value & ~free}, 150,
                             bounds='%d-bit flag word at offset %d of an accepted vector, bits %#x free' % (
                                 bits, pos, free)))
    out.append(Shard(MOD, 'http_dates', 'shape/http_dates', {}, kind='concrete',
                     bounds='%d spellings of HTTP dates incl. numeric and named zones (enumerated natively, not '
                            'solver-decided)' % len(DATE_INPUTS)))
    return out
