# -*- coding: utf-8 -*-
"""C10 - every wire code point is decoded faithfully or preserved verbatim.

For each NByteEnumParsable factory of the current tree the code is a solver variable over the whole
2^8 / 2^16 / 2^24 / 2^32 space; lists are exercised as (prefix || code || known code) so that an
unknown or GREASE code that swallowed or lost its neighbour shows.  The GREASE classification is
compared with the RFC 8701 tables written out below, not with the library's own enum.
"""
import enum

from cryptodatahub.common.exception import InvalidValue

from symcheck import api
from symcheck.api import parse_errors, reach
from symcheck.harness import registry
from symcheck.runner import Shard

MOD = __name__
P = {}
PARSE_ERRORS = parse_errors()

# RFC 8701: two-byte values 0x0A0A, 0x1A1A, ... 0xFAFA; one-byte values for PskKeyExchangeModes
GREASE16 = [0x0a0a + 0x1010 * idx for idx in range(16)]
GREASE8 = [0x0b, 0x2a, 0x49, 0x68, 0x87, 0xa6, 0xc5, 0xe4]


def _digits(value, size):
    return bytes([(value >> (8 * (size - 1 - idx))) % 256 for idx in range(size)])


def _factory():
    return registry.resolve(P['FACTORY'])


def _table(factory):
    table = {}
    for member in factory.get_enum_class():
        table.setdefault(member.value.code, []).append(member.name)
    return table


def factory_code(code: int) -> bool:
    """post: _"""
    factory = _factory()
    size = factory.get_byte_num()
    if not (P['LO'] <= code < P['HI'] and code < 2 ** (8 * size)):
        return True
    data = _digits(code, size)
    known = any([code == item for item in P['CODES']])  # pylint: disable=use-a-generator
    try:
        member, consumed = factory.parse_immutable(data + b'\x99')
    except InvalidValue:
        reach()
        return not known           # a known code must decode
    except PARSE_ERRORS:
        return False
    reach()
    if not known or consumed != size:
        return False               # an unknown code silently mapped to some member
    if member.value.code != code:
        return False
    # re-encoding: the member's own compose() where it has one, else the way every container composes an
    # enum-coded item
    if hasattr(member, 'compose'):
        return bytes(member.compose()) == data
    from cryptoparser.common.parse import ComposerBinary  # pylint: disable=import-outside-toplevel
    composer = ComposerBinary()
    composer.compose_numeric_enum_coded(member)
    return bytes(composer.composed_bytes) == data


def vector_code(code: int) -> bool:
    """post: _"""
    vector = registry.resolve(P['VECTOR'])
    param = vector.get_param()
    size = param.fallback_class.get_byte_num()
    if not (P['LO'] <= code < P['HI'] and code < 2 ** (8 * size)):
        return True
    neighbour = P['NEIGHBOUR']
    body = _digits(code, size) + _digits(neighbour, size) if P['FIRST'] else _digits(neighbour, size) + _digits(code, size)
    data = _digits(len(body), param.item_num_size) + body
    try:
        parsed, consumed = vector.parse_immutable(data)
    except InvalidValue:
        reach()
        return True                 # rejected as invalid: allowed
    except PARSE_ERRORS:
        return False                # an unknown code must not look like truncated / oversized data
    reach()
    items = list(parsed)
    if consumed != len(data) or len(items) != 2:
        api.note('items dropped or merged: %r' % (items,))
        return False
    item = items[0] if P['FIRST'] else items[1]
    other = items[1] if P['FIRST'] else items[0]
    if getattr(other, 'value').code != neighbour or getattr(item, 'value').code != code:
        return False
    known = any([code == known_code for known_code in P['CODES']])  # pylint: disable=use-a-generator
    if isinstance(item, enum.Enum):
        if not known:
            return False
    else:
        if known:
            return False            # a defined code point must decode to its member
        grease = any([code == value for value in (GREASE16 if size == 2 else GREASE8)])  # pylint: disable=use-a-generator
        from cryptoparser.tls.grease import TlsInvalidType  # pylint: disable=import-outside-toplevel
        if (item.value.value_type == TlsInvalidType.GREASE) != grease:
            return False
    return bytes(parsed.compose()) == data


def alert_codes(level: int, description: int) -> bool:
    """post: _"""
    from cryptoparser.tls.subprotocol import TlsAlertMessage  # pylint: disable=import-outside-toplevel
    if not (0 <= level < 256 and 0 <= description < 256):
        return True
    data = bytes([level, description])
    try:
        message = TlsAlertMessage.parse_exact_size(data)
    except InvalidValue:
        reach()
        return not (any([level == code for code in P['LEVELS']]) and  # pylint: disable=use-a-generator
                    any([description == code for code in P['DESCRIPTIONS']]))  # pylint: disable=use-a-generator
    reach()
    if int(message.level) != level or int(message.description) != description:
        return False
    return bytes(message.compose()) == data


def int_enum_byte(code: int) -> bool:
    """post: _"""
    # IntEnum-typed header bytes carried by a message: the code on the wire is the code of the decoded member
    if not 0 <= code < 256:
        return True
    kind = P['KIND']
    if kind == 'content_type':
        from cryptoparser.tls.record import TlsRecord  # pylint: disable=import-outside-toplevel
        data = bytes([code, 3, 3, 0, 1, 7])
        cls, getter = TlsRecord, (lambda obj: int(obj.content_type))
    elif kind == 'ssh_reason':
        from cryptoparser.ssh.subprotocol import SshDisconnectMessage  # pylint: disable=import-outside-toplevel
        data = bytes([1, 0, 0, 0, code, 0, 0, 0, 1, 97, 0, 0, 0, 2, 101, 110])
        cls, getter = SshDisconnectMessage, (lambda obj: int(obj.reason))
    elif kind == 'ssl_message_type':
        from cryptoparser.tls.record import SslRecord  # pylint: disable=import-outside-toplevel
        data = bytes([0x80, 3, code, 0, 1])
        cls, getter = SslRecord, (lambda obj: int(obj.message.get_message_type()))
    elif kind == 'mysql_charset':
        from cryptoparser.tls.mysql import MySQLHandshakeSslRequest  # pylint: disable=import-outside-toplevel
        data = bytes([0x00, 0x8a, 0x00, 0x00, 1, 0, 0, 0, code]) + bytes(23)
        cls, getter = MySQLHandshakeSslRequest, (lambda obj: obj.character_set.value.code)
    else:
        raise NotImplementedError(kind)
    try:
        obj = cls.parse_exact_size(data)
    except PARSE_ERRORS:
        reach()
        return True
    reach()
    if getter(obj) != code:
        return False
    return bytes(obj.compose()) == data


def opaque_name(extra: bytes) -> bool:
    """post: _"""
    # ALPN / NPN: a name that merely starts with a registered name is not that name
    factory = _factory()
    if not 1 <= len(extra) <= P['B']:
        return True
    name = P['NAME'].encode('ascii') + extra
    data = bytes([len(name)]) + name
    try:
        member, _ = factory.parse_immutable(data)
    except InvalidValue:
        reach()
        return True
    reach()
    return member.value.code.encode('utf-8') == name


def ssh_name_list(extra: bytes) -> bool:
    """post: _"""
    vector = registry.resolve(P['VECTOR'])
    if not 1 <= len(extra) <= P['B']:
        return True
    for char in extra:
        if not (33 <= char < 127 and char != 44):
            return True
    known = P['NAME'].encode('ascii')
    body = known + b',' + known + extra + b',' + extra
    data = _digits(len(body), 4) + body
    try:
        parsed, consumed = vector.parse_immutable(data)
    except PARSE_ERRORS:
        return False
    reach()
    items = list(parsed)
    if consumed != len(data) or len(items) != 3:
        return False
    texts = [item.value.code if isinstance(item, enum.Enum) else item for item in items]
    if [text.encode('ascii') for text in texts] != [known, known + extra, extra]:
        return False
    return bytes(parsed.compose()) == data


def string_enum_members():
    """concrete: every member of every string-coded enumeration parses to itself and composes to its code"""
    from cryptoparser.common.base import StringEnumParsableBase  # pylint: disable=import-outside-toplevel
    problems = []
    registry.import_all()

    def subclasses(cls):
        out = []
        for sub in cls.__subclasses__():
            out.append(sub)
            out.extend(subclasses(sub))
        return out

    for cls in sorted(set(subclasses(StringEnumParsableBase)), key=lambda item: item.__name__):
        if not (cls.__module__.startswith('cryptoparser.') and issubclass(cls, enum.Enum)):
            continue
        codes = {}
        for member in cls:
            code = member.value.code
            codes.setdefault(code.lower() if 'CaseInsensitive' in ''.join(b.__name__ for b in cls.__mro__) else code,
                             []).append(member.name)
            try:
                parsed = cls.parse_exact_size(code.encode('ascii'))
            except Exception as exc:  # pylint: disable=broad-except
                problems.append('%s.%s: own code %r rejected (%s)' % (cls.__name__, member.name, code,
                                                                       type(exc).__name__))
                continue
            if parsed is not member:
                problems.append('%s.%s: code %r decodes to %s' % (cls.__name__, member.name, code, parsed.name))
            elif bytes(parsed.compose()) != code.encode('ascii'):
                problems.append('%s.%s: composes to %r' % (cls.__name__, member.name, parsed.compose()))
        for code, names in codes.items():
            if len(names) > 1:
                problems.append('%s: members %s share the code %r' % (cls.__name__, names, code))
    return problems


# names that legitimately share a number (the protocol assigns one number to both)
SANCTIONED_ALIASES = {
    # RFC 4253 SSH_MSG_KEXDH_REPLY and RFC 4419 SSH_MSG_KEX_DH_GEX_GROUP are both message number 31
    ('SshMessageCode', 'DH_GEX_GROUP', 'DH_KEX_REPLY'),
}


def enum_aliases():
    """concrete: distinct symbolic names never share a code"""
    import importlib  # pylint: disable=import-outside-toplevel
    import inspect  # pylint: disable=import-outside-toplevel
    import pkgutil  # pylint: disable=import-outside-toplevel
    import cryptoparser  # pylint: disable=import-outside-toplevel
    problems = []
    seen = set()
    for info in pkgutil.walk_packages(cryptoparser.__path__, 'cryptoparser.'):
        module = importlib.import_module(info.name)
        for _, cls in inspect.getmembers(module, inspect.isclass):
            if not issubclass(cls, enum.Enum) or cls in seen or not cls.__module__.startswith('cryptoparser.'):
                continue
            seen.add(cls)
            for name, member in cls.__members__.items():
                if member.name != name and (cls.__name__, name, member.name) not in SANCTIONED_ALIASES:
                    problems.append('%s.%s is an alias of %s (value %r)' % (cls.__name__, name, member.name,
                                                                          member.value))
            codes = {}
            for member in cls:
                code = getattr(member.value, 'code', None)
                if code is not None:
                    codes.setdefault(code, []).append(member.name)
            for code, names in codes.items():
                if len(names) > 1:
                    problems.append('%s: members %s share the code %r' % (cls.__name__, names, code))
    return problems


def sample_args(rng, kwargs):
    out = {}
    for name in kwargs:
        if name == 'code':
            out[name] = rng.choice([rng.choice(P['CODES']) if P.get('CODES') else 0, P.get('LO', 0) + rng.randrange(
                0, max(1, P.get('HI', 256) - P.get('LO', 0))), rng.choice(GREASE16), rng.choice(GREASE8)])
        elif name in ('level', 'description'):
            out[name] = rng.randrange(256)
        elif name == 'extra':
            out[name] = bytes(rng.choice(b'ab-1') for _ in range(rng.randrange(1, 3)))
    return out


def _factories():
    from cryptoparser.common.base import NByteEnumParsable  # pylint: disable=import-outside-toplevel
    registry.import_all()

    def subclasses(cls):
        out = []
        for sub in cls.__subclasses__():
            out.append(sub)
            out.extend(subclasses(sub))
        return out

    found = []
    for cls in sorted(set(subclasses(NByteEnumParsable)), key=registry.class_name):
        if not cls.__module__.startswith('cryptoparser.'):
            continue
        try:
            cls.get_enum_class()
            cls.get_byte_num()
        except (NotImplementedError, TypeError):
            continue
        found.append(cls)
    return found


def shards(tier, seed):  # pylint: disable=unused-argument,too-many-locals
    from cryptoparser.common.base import ArrayBase, VectorParamEnumCodeNumeric  # pylint: disable=import-outside-toplevel
    from cryptoparser.common.utils import get_leaf_classes  # pylint: disable=import-outside-toplevel
    out = []
    for factory in _factories():
        name = registry.class_name(factory)
        size = factory.get_byte_num()
        codes = sorted(_table(factory))
        space = 2 ** (8 * size)
        pieces = 16 if size >= 2 and len(codes) > 30 else (4 if size >= 2 else 1)
        step = space // pieces
        for low in range(0, space, step):
            inside = [code for code in codes if low <= code < low + step]
            out.append(Shard(MOD, 'factory_code', 'factory/%s/%x' % (factory.__name__, low),
                             {'FACTORY': name, 'LO': low, 'HI': low + step, 'CODES': inside}, 240,
                             bounds='every code %#x..%#x of the %d-byte space of %s (%d defined members in range)' % (
                                 low, low + step - 1, size, factory.__name__, len(inside))))
    for vector in sorted(set(get_leaf_classes(ArrayBase)), key=registry.class_name):
        if not vector.__module__.startswith('cryptoparser.'):
            continue
        param = vector.get_param()
        if not isinstance(param, VectorParamEnumCodeNumeric) or param.fallback_class is None:
            continue
        size = param.fallback_class.get_byte_num()
        codes = sorted(_table(param.item_class))
        neighbour = codes[len(codes) // 2]
        space = 2 ** (8 * size)
        pieces = 16 if size == 2 and len(codes) > 30 else (4 if size == 2 else 1)
        step = space // pieces
        for first in (True, False):
            for low in range(0, space, step):
                if tier == 'quick' and pieces == 16 and not first and (low // step) % 4 != seed % 4:
                    continue
                inside = [code for code in codes if low <= code < low + step]
                out.append(Shard(MOD, 'vector_code', 'vector/%s/%s/%x' % (vector.__name__, 'first' if first else
                                                                          'last', low),
                                 {'VECTOR': registry.class_name(vector), 'LO': low, 'HI': low + step, 'CODES': inside,
                                  'NEIGHBOUR': neighbour, 'FIRST': first}, 300,
                                 bounds='%s holding [code, %#x] resp. [%#x, code] for every code %#x..%#x' % (
                                     vector.__name__, neighbour, neighbour, low, low + step - 1)))
    from cryptoparser.tls.subprotocol import TlsAlertDescription, TlsAlertLevel  # pylint: disable=import-outside-toplevel
    out.append(Shard(MOD, 'alert_codes', 'intenum/alert', {
        'LEVELS': sorted({int(item) for item in TlsAlertLevel}),
        'DESCRIPTIONS': sorted({int(item) for item in TlsAlertDescription})}, 300,
        bounds='all 65536 (level, description) pairs'))
    for kind in ('content_type', 'ssh_reason', 'ssl_message_type', 'mysql_charset'):
        out.append(Shard(MOD, 'int_enum_byte', 'intenum/' + kind, {'KIND': kind}, 300,
                         bounds='all 256 values of the %s byte inside an otherwise valid message' % kind))
    for factory_name, names in (('cryptoparser.tls.extension.TlsProtocolNameFactory', ('h2', 'http/1.1', 'spdy/3')),
                                ('cryptoparser.tls.extension.TlsNextProtocolNameFactory', ('h2', 'spdy/3'))):
        for alpn in names:
            out.append(Shard(MOD, 'opaque_name', 'opaque/%s/%s' % (factory_name.rsplit('.', 1)[-1],
                                                                    alpn.replace('/', '_')),
                             {'FACTORY': factory_name, 'NAME': alpn, 'B': 1 if tier == 'quick' else 2},
                             1200 if tier == 'thorough' else 300,
                             bounds='registered name %r followed by 1 (quick) / 1..2 (thorough) symbolic bytes' % alpn))
    for vector_name, known in (('cryptoparser.ssh.subprotocol.SshKexAlgorithmVector', 'curve25519-sha256'),
                               ('cryptoparser.ssh.subprotocol.SshEncryptionAlgorithmVector', 'aes128-ctr'),
                               ('cryptoparser.ssh.subprotocol.SshMacAlgorithmVector', 'hmac-sha1'),
                               ('cryptoparser.ssh.subprotocol.SshCompressionAlgorithmVector', 'none'),
                               ('cryptoparser.ssh.subprotocol.SshHostKeyAlgorithmVector', 'ssh-rsa')):
        out.append(Shard(MOD, 'ssh_name_list', 'sshnames/' + vector_name.rsplit('.', 1)[-1],
                         {'VECTOR': vector_name, 'NAME': known, 'B': 1 if tier == 'quick' else 2}, 400,
                         bounds='name-list [known, known+x, x] for every printable x of <= %d bytes: order and '
                                'unknown names preserved' % (1 if tier == 'quick' else 2)))
    out.append(Shard(MOD, 'string_enum_members', 'string_enum_members', {}, kind='concrete',
                     bounds='every member of every string-coded enumeration (enumerated natively)'))
    out.append(Shard(MOD, 'enum_aliases', 'enum_aliases', {}, kind='concrete',
                     bounds='every Enum of every cryptoparser module: no aliases, no shared codes (natively)'))
    return out
