# -*- coding: utf-8 -*-
"""C18 - insignificant spelling of text fields never changes what is parsed.

A *spelling model* describes one value of one type the way its governing RFC does: an ordered list of elements
(name, value), the list separator, and which variations the RFC declares insignificant for that type (the clause is
quoted per axis in MODELS).  The canonical spelling is rendered from the model; a variant is rendered from the same
model with ONE deviation whose parameters are the harness arguments:

    case     one letter of a name takes the other case       where = letter slot, ch in {lower, upper} (solver)
    ws       a run of optional whitespace at a separator      where = slot, ch in the RFC's whitespace set, count <= 3
    empty    additional empty list elements                   where = slot, count <= 2
    order    two independent elements swapped                 where = pair index
    quote    a value in the other (token / quoted-string) form  where = value index
    unknown  an unknown element added                         where = slot, ch = a symbolic name character

The property is `deep_eq(parse(variant), parse(canonical))`; for `unknown` the attribute that collects unknown
elements (attrs metadata extension=True), if the class has one, is left out of the comparison.
"""
import itertools

from symcheck import api
from symcheck.api import deep_eq, reach
from symcheck.harness import registry
from symcheck.runner import Shard

MOD = __name__
P = {}

TOKEN_EXTRA = "!#$%&'*+-.^_`|~"
HTTP_WS = (0x20, 0x09)


class Model(object):  # pylint: disable=too-few-public-methods,too-many-instance-attributes
    def __init__(self, cls, items, sep, glue=' ', axes=(), fixed=0, prefix='', quotable=(), ws=HTTP_WS, eq_ws=False,
                 case_values=(), leading_empty=False, clause=None, unknown=('x-unknown', 'value'), opening='',
                 closing='', sep_ws=('before', 'after'), normalise=None, movable=None, end_ws=True, case_items=None):
        self.cls = cls                # dotted class name below cryptoparser.
        self.items = items            # [(name, value or None)]
        self.sep = sep                # list separator
        self.glue = glue              # canonical whitespace after the separator
        self.axes = axes
        self.fixed = fixed            # number of leading items whose position is significant
        self.prefix = prefix          # text before the first item (e.g. the cookie pair)
        self.quotable = quotable      # names whose value may be written as token or quoted-string
        self.ws = ws                  # whitespace characters the RFC allows at separators
        self.eq_ws = eq_ws            # whitespace allowed around '=' as well
        self.case_values = case_values
        self.leading_empty = leading_empty
        self.clause = clause or {}
        self.unknown = unknown        # (name, value[, joiner]) of the element added by the unknown axis
        self.opening = opening        # text before the first element / after the last one (JSON braces)
        self.closing = closing
        self.sep_ws = sep_ws          # sides of the list separator at which whitespace may be added
        self.normalise = normalise    # applied to both objects before the comparison on the unknown axis
        self.movable = movable        # indices of elements whose position is not significant (default: all unfixed)
        self.end_ws = end_ws
        self.case_items = case_items  # indices of the elements whose name case is insignificant (default: all)


MODELS = {
    'sts': Model(
        'httpx.header.HttpHeaderFieldValueSTS',
        [('max-age', '31536000'), ('includeSubDomains', None), ('preload', None)], ';',
        axes=('case', 'ws', 'empty', 'order', 'quote', 'unknown'), quotable=('max-age',), eq_ws=True,
        clause={'case': 'RFC 6797 6.1 (3): directive names are case-insensitive',
                'ws': 'RFC 6797 6.1: *( ";" [ directive ] ) under the implied-LWS rule of RFC 2616 2.1',
                'empty': 'RFC 6797 6.1: *( ";" [ directive ] ) - a directive between two ";" is optional',
                'order': 'RFC 6797 6.1 (1): the order of appearance of directives is not significant',
                'quote': 'RFC 6797 6.1: directive-value = token | quoted-string',
                'unknown': 'RFC 6797 6.1 (5): UAs MUST ignore any STS header field containing directives ... that '
                           'do not conform to their ABNF -> unrecognized directives are ignored'}),
    'expect_ct': Model(
        'httpx.header.HttpHeaderFieldValueExpectCT',
        [('max-age', '86400'), ('enforce', None), ('report-uri', '"http://example.com/r"')], ',',
        axes=('case', 'ws', 'empty', 'order', 'unknown'), leading_empty=True,
        clause={'case': 'RFC 9163 2.1 (2): directive names are case insensitive',
                'ws': 'RFC 9163 2.1: #directive - RFC 9110 5.6.1: OWS "," OWS',
                'empty': 'RFC 9110 5.6.1.2: a recipient MUST parse and ignore a reasonable number of empty list '
                         'elements',
                'order': 'RFC 9163 2.1 (1): the order of appearance of directives is not significant',
                'unknown': 'RFC 9163 2.1 (5): UAs MUST ignore any directives they do not understand'}),
    'expect_staple': Model(
        'httpx.header.HttpHeaderFieldValueExpectStaple',
        [('max-age', '86400'), ('includeSubDomains', None), ('preload', None),
         ('report-uri', '"http://example.com/r"')], ';',
        axes=('case', 'ws', 'empty', 'order', 'unknown'),
        clause={'all': 'draft Expect-Staple reuses the HSTS directive grammar (RFC 6797 6.1)'}),
    'hpkp': Model(
        'httpx.header.HttpHeaderFieldValuePublicKeyPinning',
        [('pin-sha256', '"cGluLXNoYTI1Ng=="'), ('max-age', '5184000'), ('includeSubDomains', None),
         ('report-uri', '"http://example.com/r"')], ';',
        axes=('case', 'ws', 'empty', 'order', 'unknown'),
        clause={'case': 'RFC 7469 2.1 (2): directive names are case insensitive',
                'ws': 'RFC 7469 2.1: OWS ";" OWS',
                'empty': 'RFC 7469 2.1: *( OWS ";" OWS [ directive ] )',
                'order': 'RFC 7469 2.1 (1): the order of appearance of directives is not significant',
                'unknown': 'RFC 7469 2.1 (4): UAs MUST ignore any header fields containing directives they do not '
                           'understand -> unknown directives are ignored'}),
    'cache_control': Model(
        'httpx.header.HttpHeaderFieldValueCacheControlResponse',
        [('max-age', '60'), ('s-maxage', '30'), ('must-revalidate', None), ('no-cache', None), ('public', None)], ',',
        axes=('case', 'ws', 'empty', 'order', 'quote', 'unknown'), quotable=('max-age', 's-maxage'),
        leading_empty=True,
        clause={'case': 'RFC 9111 5.2: cache directives are identified by a token, to be compared case-insensitively',
                'ws': 'RFC 9111 5.2: #cache-directive - RFC 9110 5.6.1: OWS "," OWS',
                'empty': 'RFC 9110 5.6.1.2: empty list elements are ignored',
                'order': 'RFC 9111 5.2: independent directives; none of the listed ones depends on position',
                'quote': 'RFC 9111 5.2: recipients ought to accept both the token and the quoted-string form',
                'unknown': 'RFC 9111 5.2.3: a cache MUST ignore unrecognized cache directives'}),
    'set_cookie': Model(
        'httpx.header.HttpHeaderFieldValueSetCookie',
        [('Max-Age', '60'), ('Domain', 'example.com'), ('Path', '/'), ('Secure', None), ('HttpOnly', None),
         ('SameSite', 'Lax')], ';', prefix='sid=abc; ',
        axes=('case', 'ws', 'empty', 'order', 'unknown'), case_values=('SameSite',),
        clause={'case': 'RFC 6265 5.2: attribute-name case-insensitively matches the string ...',
                'ws': 'RFC 6265 5.2 (4): remove any leading or trailing WSP characters from the attribute-name '
                      'string and the attribute-value string',
                'empty': 'RFC 6265 5.2: an empty cookie-av has an empty attribute-name: unrecognized, ignored',
                'order': 'RFC 6265 5.3: attributes are collected into a list and looked up by name',
                'unknown': 'RFC 6265 5.2: unrecognized attribute-names are ignored'}),
    'content_type': Model(
        'httpx.header.HttpHeaderFieldValueContentType',
        [('charset', 'utf-8'), ('boundary', 'frontier')], ';', prefix='multipart/mixed; ',
        axes=('case', 'ws', 'order', 'quote', 'unknown'), quotable=('charset', 'boundary'),
        clause={'case': 'RFC 9110 8.3.1: the type, subtype and parameter name tokens are case-insensitive',
                'ws': 'RFC 9110 5.6.6: parameters = *( OWS ";" OWS [ parameter ] )',
                'order': 'RFC 9110 5.6.6: parameters are name=value pairs; order carries no meaning (8.3.1)',
                'quote': 'RFC 9110 5.6.6 / 8.3.1: a parameter value transmitted as token or quoted-string is '
                         'equivalent',
                'unknown': 'RFC 9110 8.3.1: parameters are type specific; unknown ones are carried, not rejected'}),
    'xxss': Model(
        'httpx.header.HttpHeaderFieldValueXXSSProtection',
        [('mode', 'block'), ('report', 'http://example.com/r')], ';', prefix='1; ',
        axes=('case', 'ws'),
        clause={'all': 'de-facto syntax (no RFC): 1; mode=block; report=<uri> as implemented by IE/Chromium, which '
                       'trim whitespace around ";" and compare names case-insensitively'}),
    'dmarc': Model(
        'dnsrec.txt.DnsRecordTxtValueDmarc',
        [('v', 'DMARC1'), ('p', 'none'), ('sp', 'quarantine'), ('adkim', 's'), ('aspf', 'r'), ('pct', '50'),
         ('rua', 'mailto:a@example.com')], ';', fixed=2, ws=(0x20, 0x09), eq_ws=True,
        axes=('ws', 'order', 'unknown', 'trailing'), unknown=('xq', 'value'),
        # no case axis: RFC 7489 6.3 adopts the tag-value syntax of RFC 6376, whose 3.2 says "Tags MUST be interpreted
        # in a case-sensitive manner" - the RFC does not declare the case of DMARC tag names insignificant
        clause={'ws': 'RFC 7489 6.4: dmarc-sep = *WSP %x3b *WSP; *WSP "=" *WSP in every tag',
                'order': 'RFC 7489 6.3: v first, p second; the remaining tags are a tag-list (RFC 6376 3.2), '
                         'unordered',
                'unknown': 'RFC 7489 6.3: unknown tags MUST be ignored',
                'trailing': 'RFC 7489 6.4: dmarc-record ends in [dmarc-sep]'}),
    'mta_sts': Model(
        'dnsrec.txt.DnsRecordTxtValueMtaSts',
        [('v', 'STSv1'), ('id', '20160831085700Z')], ';', fixed=1, ws=(0x20, 0x09),
        axes=('ws', 'unknown', 'trailing'), unknown=('xq', 'value'),
        clause={'ws': 'RFC 8461 3.1: sts-field-delim = *WSP ";" *WSP',
                'unknown': 'RFC 8461 3.1: sts-extension fields; unknown fields are ignored',
                'trailing': 'RFC 8461 3.1: sts-text-record ends in [sts-field-delim]'}),
    'tlsrpt': Model(
        'dnsrec.txt.DnsRecordTxtValueTlsRpt',
        [('v', 'TLSRPTv1'), ('rua', 'mailto:t@example.com')], ';', fixed=1, ws=(0x20, 0x09),
        axes=('ws', 'unknown', 'trailing'), unknown=('xq', 'value'),
        clause={'ws': 'RFC 8460 3: tlsrpt-field-delim = *WSP ";" *WSP',
                'unknown': 'RFC 8460 3: tlsrpt-extension; unknown fields are ignored',
                'trailing': 'RFC 8460 3: tlsrpt-record ends in [tlsrpt-field-delim]'}),
}


def _spf_known_terms(obj):
    from cryptoparser.dnsrec import txt  # pylint: disable=import-outside-toplevel
    return (obj.version, [term for term in obj.terms if not isinstance(term, txt.DnsRecordTxtValueSpfModifierUnknown)])


def _csp_known_directives(obj):
    return [item for item in obj.directives if type(item).__name__ != 'ContentSecurityPolicyDirectiveUnknown']


MODELS.update({
    'spf': Model(
        'dnsrec.txt.DnsRecordTxtValueSpf',
        [('v', 'spf1'), ('include', '_spf.example.com', ':'), ('a', None), ('mx', 'mail.example.com', ':'),
         ('ip4', '192.0.2.0/24', ':'), ('redirect', 'other.example.com'), ('-all', None)], ' ', glue='', fixed=1,
        ws=(0x20,), sep_ws=('after',), unknown=('xq', 'value', '='), normalise=_spf_known_terms,
        case_items=(1, 2, 3, 4, 5, 6),     # not the version: RFC 7208 4.5 asks for a version section of exactly "v=spf1"
        axes=('case', 'ws', 'unknown'),
        clause={'case': 'RFC 7208 4.6.1 / 12: version = "v=spf1" and the mechanism and modifier names are ABNF quoted '
                        'strings, case-insensitive (4.6.1: "these are case-insensitive")',
                'ws': 'RFC 7208 4.6.1 / 12: record = version terms *SP; terms = *( 1*SP ( directive / modifier ) )',
                'unknown': 'RFC 7208 6: unrecognized modifiers MUST be ignored no matter where in a record'}),
    'csp': Model(
        'httpx.header.HttpHeaderFieldValueContentSecurityPolicy',
        [('default-src', "'self'", ' '), ('img-src', 'https: data:', ' '),
         ('script-src', "'self' 'unsafe-inline'", ' '), ('upgrade-insecure-requests', None)], ';',
        axes=('case', 'ws', 'empty', 'trailing', 'unknown'), unknown=('xq-src', "'self'", ' '),
        normalise=_csp_known_directives,
        clause={'case': 'CSP3 2.2.1 (parse a serialized CSP, step 2.4): directive name is ASCII-lowercased',
                'unknown': 'CSP3 2.2.1: every directive is collected into the policy; 6: a directive name the user '
                           'agent does not know has no effect - the policy is not discarded',
                'ws': 'CSP3 2.2: serialized-policy = serialized-directive *( optional-ascii-whitespace ";" '
                      '[ optional-ascii-whitespace serialized-directive ] )',
                'empty': 'CSP3 2.2.1 step 2.2: if token is an empty string, or contains only whitespace, continue',
                'trailing': 'CSP3 2.2: the directive after ";" is optional'}),
    'nel': Model(
        'httpx.header.HttpHeaderFieldValueNetworkErrorLogging',
        [('"report_to"', '"network-errors"', ': '), ('"max_age"', '86400', ': '),
         ('"include_subdomains"', 'true', ': '), ('"failure_fraction"', '0.5', ': ')], ',',
        opening='{', closing='}', ws=(0x20, 0x09, 0x0a, 0x0d), eq_ws=True, unknown=('"xq"', '"value"', ': '),
        axes=('ws', 'order', 'unknown'),
        clause={'ws': 'RFC 8259 2: insignificant whitespace (SP, HT, LF, CR) is allowed before or after any of the '
                      'six structural characters',
                'order': 'RFC 8259 1 / 4: an object is an unordered collection of name/value pairs',
                'unknown': 'Network Error Logging 4.1: unknown members of the policy object are ignored'}),
    # the same types with boundary values: zero durations and fractions, false flags, nothing optional
    'nel_zero': Model(
        'httpx.header.HttpHeaderFieldValueNetworkErrorLogging',
        [('"report_to"', '"g"', ': '), ('"max_age"', '0', ': '), ('"include_subdomains"', 'false', ': '),
         ('"success_fraction"', '0.0', ': '), ('"failure_fraction"', '0', ': ')], ',',
        opening='{', closing='}', ws=(0x20, 0x09, 0x0a, 0x0d), eq_ws=True, unknown=('"xq"', '0', ': '),
        axes=('ws', 'order', 'unknown', 'same'),
        clause={'ws': 'RFC 8259 2', 'order': 'RFC 8259 1 / 4', 'unknown': 'Network Error Logging 4.1',
                'same': 'the canonical spelling produced by compose is itself one of the variants'}),
    # quoted-string values as the canonical form, so that each other deviation is also tried on top of quoting
    'sts_quoted': Model(
        'httpx.header.HttpHeaderFieldValueSTS', [('max-age', '"31536000"'), ('includeSubDomains', None)], ';',
        axes=('case', 'ws', 'empty', 'order', 'unknown'), eq_ws=True,
        clause={'all': 'RFC 6797 6.1: directive-value = token | quoted-string; implied *LWS between tokens (RFC 2616 2.1)'}),
    'content_type_quoted': Model(
        'httpx.header.HttpHeaderFieldValueContentType',
        [('charset', '"utf-8"'), ('boundary', '"frontier"')], ';', prefix='multipart/mixed; ',
        axes=('case', 'ws', 'order', 'unknown'),
        clause={'all': 'RFC 9110 5.6.6 / 8.3.1 (see content_type)'}),
    'sts_zero': Model(
        'httpx.header.HttpHeaderFieldValueSTS', [('max-age', '0')], ';',
        axes=('case', 'ws', 'empty', 'quote', 'unknown', 'same'), quotable=('max-age',),
        clause={'all': 'RFC 6797 6.1 (max-age=0 is the documented way to switch HSTS off)'}),
    'dmarc_zero': Model(
        'dnsrec.txt.DnsRecordTxtValueDmarc',
        [('v', 'DMARC1'), ('p', 'reject'), ('pct', '0'), ('ri', '0'), ('fo', '0')], ';', fixed=2, ws=(0x20, 0x09),
        eq_ws=True, axes=('ws', 'order', 'unknown', 'trailing', 'same'), unknown=('xq', '0'),
        clause={'all': 'RFC 7489 6.3 / 6.4 (see dmarc)'}),
    'set_cookie_zero': Model(
        'httpx.header.HttpHeaderFieldValueSetCookie',
        [('Max-Age', '0'), ('Path', '/')], ';', prefix='sid=; ',
        axes=('case', 'ws', 'order', 'unknown', 'same'),
        clause={'all': 'RFC 6265 5.2 (empty cookie value, Max-Age=0 expires the cookie)'}),
    'field_sts': Model(
        'httpx.header.HttpHeaderFieldSTS',
        [('Strict-Transport-Security', 'max-age=31536000; includeSubDomains', ': ')], ';', closing='\r\n',
        eq_ws=('eq-after',), end_ws=False, opening='',
        axes=('case', 'ws'),
        clause={'case': 'RFC 9110 5.1: field names are case-insensitive',
                'ws': 'RFC 9110 5.5 / RFC 9112 5: field-line = field-name ":" OWS field-value OWS'}),
    'field_content_type': Model(
        'httpx.header.HttpHeaderFieldContentType',
        [('Content-Type', 'text/html; charset=utf-8', ': ')], ';', closing='\r\n', eq_ws=('eq-after', 'value-end'),
        end_ws=False, axes=('case', 'ws'),
        clause={'case': 'RFC 9110 5.1: field names are case-insensitive',
                'ws': 'RFC 9110 5.5 / RFC 9112 5: field-line = field-name ":" OWS field-value OWS'}),
    'field_unparsed': Model(
        'httpx.header.HttpHeaderFieldUnparsed',
        [('X-Custom', 'some value', ': ')], ';', closing='\r\n', eq_ws=('eq-after', 'value-end'), end_ws=False,
        axes=('ws',),
        clause={'ws': 'RFC 9110 5.5 / RFC 9112 5: field-line = field-name ":" OWS field-value OWS'}),
})
MODELS['field_sts'].eq_ws = ('eq-after', 'value-end')


for _model in MODELS.values():
    if 'same' not in _model.axes and not _model.closing.endswith('\r\n'):
        _model.axes = tuple(_model.axes) + ('same',)


def model_class(model):
    return registry.resolve('cryptoparser.' + model.cls)


# --- slots ------------------------------------------------------------------------------------------------------

def letter_slots(model):
    """(item index, char index) of every letter of every name"""
    out = []
    for index, item in enumerate(model.items):
        if model.case_items is not None and index not in model.case_items:
            continue
        for pos, char in enumerate(item[0]):
            if char.isalpha():
                out.append((index, pos))
    return out


def ws_slots(model):
    """('before'|'after', separator index) and, with eq_ws, ('eq-before'|'eq-after', item index); plus ('end', 0)"""
    out = []
    seps = len(model.items) - 1 + (1 if model.prefix else 0)
    for index in range(seps):
        for side in model.sep_ws:
            out.append((side, index))
    if model.eq_ws:
        for index, item in enumerate(model.items):
            if item[1] is not None:
                for side in (('eq-before', 'eq-after') if model.eq_ws is True else model.eq_ws):
                    out.append((side, index))
    if model.opening:
        out.append(('open', 0))
        out.append(('close', 0))
    if model.end_ws:
        out.append(('end', 0))
    return out


def _pieces(model, items=None, quoted=()):
    """the canonical spelling as a list of text pieces: prefix head, then per item its text, separators in between"""
    items = model.items if items is None else items
    texts = []
    for index, item in enumerate(items):
        name, value = item[0], item[1]
        if value is None:
            texts.append([name, '', ''])
        else:
            if index in quoted:
                value = value.strip('"') if value.startswith('"') else '"%s"' % value
            texts.append([name, item[2] if len(item) > 2 else '=', value])
    head = []
    if model.prefix:
        head = [model.prefix[:-len(model.sep + model.glue)]]
    return head, texts


def spell(model, axis, where, char, count):  # pylint: disable=too-many-branches,too-many-locals,too-many-statements
    """the variant text, or None when (where, char, count) does not name a deviation of this axis"""
    items = list(model.items)
    quoted = ()
    extra_sep = {}        # separator index -> (text before, text after)
    eq_pad = {}
    tail = ''
    if axis == 'case':
        slots = letter_slots(model)
        if not 0 <= where < len(slots):
            return None
        index, pos = slots[where]
        name = items[index][0]
        if char not in (ord(name[pos].lower()), ord(name[pos].upper())):
            return None
        items[index] = (name[:pos] + chr(char) + name[pos + 1:],) + tuple(items[index][1:])
    elif axis == 'case_all':
        if not 0 <= where <= 2:
            return None
        change = (str.upper, str.lower, str.swapcase)[where]
        items = [((change(item[0]),) + tuple(item[1:])) if (model.case_items is None or index in model.case_items)
                 else item for index, item in enumerate(items)]
    elif axis == 'ws':
        slots = ws_slots(model)
        if not 0 <= where < len(slots) or not 0 <= count <= 3:
            return None
        if not any([char == item for item in model.ws]):  # pylint: disable=use-a-generator
            return None
        kind, index = slots[where]
        pad = chr(char) * count
        if kind == 'before':
            extra_sep[index] = (pad, None)
        elif kind == 'after':
            extra_sep[index] = ('', pad)
        elif kind == 'eq-before':
            eq_pad[index] = (pad, '')
        elif kind == 'eq-after':
            eq_pad[index] = ('', pad)
        elif kind == 'value-end':
            eq_pad[index] = ('', '', pad)
        elif kind == 'open':
            extra_sep['open'] = pad
        elif kind == 'close':
            extra_sep['close'] = pad
        else:
            tail = pad
    elif axis == 'empty':
        seps = len(items) - 1 + (1 if model.prefix else 0)
        if not 0 <= where <= seps + (1 if model.leading_empty else 0) or not 1 <= count <= 2:
            return None
        if where == seps:
            tail = (model.sep + model.glue) * count
            tail = tail.rstrip(' ') if count == 1 else tail
        elif where == seps + 1:
            extra_sep['lead'] = (model.sep + model.glue) * count
        else:
            extra_sep[where] = ('', model.glue + (model.sep + model.glue) * count)
    elif axis == 'same':
        if where != 0:
            return None
    elif axis == 'trailing':
        if not 0 <= where <= 1:
            return None
        tail = model.sep + (' ' if where else '')
    elif axis == 'order':
        movable = list(range(model.fixed, len(items))) if model.movable is None else list(model.movable)
        pairs = list(itertools.combinations(movable, 2))
        if not 0 <= where < len(pairs):
            return None
        left, right = pairs[where]
        items[left], items[right] = items[right], items[left]
    elif axis == 'quote':
        candidates = [index for index, item in enumerate(items) if item[0] in model.quotable]
        if not 0 <= where < len(candidates):
            return None
        quoted = (candidates[where],)
    elif axis == 'unknown':
        if not model.fixed <= where <= len(items) or not 0 <= count <= 1:
            return None
        if not (chr(char).isalnum() and char < 128):
            return None
        name = model.unknown[0][:1] + chr(char) + model.unknown[0][1:]
        if any(name.lower() == item[0].lower() for item in items):
            return None
        if not count and len(model.unknown) > 2 and model.unknown[2] != '=':
            return None
        items.insert(where, (name, model.unknown[1] if count else None) + tuple(model.unknown[2:]))
    else:
        raise ValueError(axis)

    head, texts = _pieces(model, items, quoted)
    out = model.opening + extra_sep.get('open', '') + extra_sep.get('lead', '')
    seq = head + texts
    for position, piece in enumerate(seq):
        if isinstance(piece, list):
            index = position - len(head)
            name, equals, value = piece
            pads = eq_pad.get(index, ('', '')) + ('',)
            out += name + (pads[0] + equals + pads[1] if equals else '') + value + pads[2]
        else:
            out += piece
        if position + 1 < len(seq):
            before, after = extra_sep.get(position, ('', None))
            out += before + model.sep + (model.glue if after is None else after)
    return out + extra_sep.get('close', '') + model.closing + tail


def canonical(model):
    head, texts = _pieces(model)
    seq = head + [''.join(piece) for piece in texts]
    return model.opening + (model.sep + model.glue).join(seq) + model.closing


def _extension_attribute(cls):
    import attr  # pylint: disable=import-outside-toplevel
    if not attr.has(cls):
        return None
    for name, attribute in attr.fields_dict(cls).items():
        if attribute.metadata.get('extension', False):
            return name
    return None


def same_object(left, right, ignore=None):
    if ignore is None:
        return deep_eq(left, right)
    import attr  # pylint: disable=import-outside-toplevel
    if type(left) is not type(right):
        return False
    for name in attr.fields_dict(type(left)):
        if name != ignore and not deep_eq(getattr(left, name), getattr(right, name)):
            return False
    return True


def _equivalent(model, axis, cls, variant, reference):
    if axis != 'unknown':
        return deep_eq(variant, reference)
    if model.normalise is not None:
        return deep_eq(model.normalise(variant), model.normalise(reference))
    return same_object(variant, reference, _extension_attribute(cls))


def parse(model, text):
    cls = model_class(model)
    data = text.encode('ascii')
    if model.closing.endswith('\r\n'):
        # a field line is parsed up to its CRLF, which stays for the enclosing list parser
        obj, length = cls.parse_immutable(data)
        if length != len(data) - 2:
            raise ValueError('field line consumed %d of %d bytes' % (length, len(data) - 2))
        return obj
    return cls.parse_exact_size(data)


def spelling(where: int, char: int, count: int) -> bool:
    """post: _"""
    model = MODELS[P['MODEL']]
    axis = P['AXIS']
    if not (0 <= char < 256 and -1 <= where < 64 and 0 <= count < 4):
        return True
    if 'WLO' in P and not P['WLO'] <= where < P['WHI']:
        return True
    if 'CHARS' in P and not any([char == item for item in P['CHARS']]):  # pylint: disable=use-a-generator
        return True
    text = spell(model, axis, where, char, count)
    if text is None:
        return True
    cls = model_class(model)
    reference = parse(model, canonical(model))
    reach()
    if axis == 'same':
        text = bytes(reference.compose()).decode('ascii') + (model.closing if model.closing.endswith('\r\n') else '')
    try:
        variant = parse(model, text)
    except Exception as exc:  # pylint: disable=broad-except
        api.note('variant %r is rejected: %s' % (text, type(exc).__name__))
        return api.escaped(exc)
    if not _equivalent(model, axis, cls, variant, reference):
        api.note('variant %r parses to %r, canonical %r to %r' % (text, variant, canonical(model), reference))
        return False
    return True


BLOCK = [
    ('Age', '1'),
    ('Cache-Control', 'max-age=60, no-cache'),
    ('Content-Type', 'text/html; charset=utf-8'),
    ('Expect-CT', 'max-age=1, enforce'),
    ('Strict-Transport-Security', 'max-age=31536000; includeSubDomains'),
    ('Set-Cookie', 'sid=abc; Path=/; Secure'),
    ('X-Custom', 'some value'),
    ('X-XSS-Protection', '1; mode=block'),
    ('Public-Key-Pins', 'pin-sha256="cGluLXNoYTI1Ng=="; max-age=1'),
    ('Content-Security-Policy', "default-src 'self'"),
    ('NEL', '{"report_to": "network-errors", "max_age": 1}'),
    ('Server', 'server'),
]


def _block_text(lines):
    return ''.join('%s: %s\r\n' % line for line in lines) + '\r\n'


def _parse_block(text):
    from cryptoparser.httpx.header import HttpHeaderFields  # pylint: disable=import-outside-toplevel
    data = text.encode('ascii')
    fields, length = HttpHeaderFields.parse_immutable(data)
    if length != len(data):
        raise ValueError('header block consumed %d of %d bytes' % (length, len(data)))
    return list(fields)


def block(where: int, char: int) -> bool:
    """post: _"""
    from cryptoparser.httpx.header import HttpHeaderFieldUnparsed  # pylint: disable=import-outside-toplevel
    lines = list(BLOCK)
    if not (0 <= where < len(lines) and 0 <= char < 128):
        return True
    if 'WLO' in P and not P['WLO'] <= where < P['WHI']:
        return True
    if 'CHARS' in P and not any([char == item for item in P['CHARS']]):  # pylint: disable=use-a-generator
        return True
    if not chr(char).isalnum():
        return True
    reference = _parse_block(_block_text(lines))
    reach()
    if len(reference) != len(lines):
        api.note('%d lines parse to %d fields' % (len(lines), len(reference)))
        return False
    name, value = lines[where]
    mode = P['MODE']
    if mode == 'standalone':
        # a field inside a block is the field parsed on its own
        alone, _ = type(reference[where]).parse_immutable(('%s: %s\r\n' % (name, value)).encode('ascii'))
        return deep_eq(alone, reference[where])
    # the field type becomes one the library does not know: the other fields stay, this one keeps name and value
    changed = ('X' + chr(char) + '-' + name) if mode == 'renamed' else (name + '-' + chr(char) + 'x')
    lines[where] = (changed, value)
    try:
        variant = _parse_block(_block_text(lines))
    except Exception as exc:  # pylint: disable=broad-except
        return api.escaped(exc)
    if len(variant) != len(reference):
        api.note('field count changes from %d to %d' % (len(reference), len(variant)))
        return False
    for index, (left, right) in enumerate(zip(variant, reference)):
        if index == where:
            if not (isinstance(left, HttpHeaderFieldUnparsed) and left.name == changed and left.value == value):
                api.note('renamed field %r parses to %r' % (changed, left))
                return False
        elif not deep_eq(left, right):
            api.note('field %d changes when field %d is renamed' % (index, where))
            return False
    return True


def sample_block(rng, kwargs):
    return {'where': rng.randrange(P.get('WLO', 0), P.get('WHI', len(BLOCK))),
            'char': rng.choice(P.get('CHARS', [48, 57, 65, 90, 97, 122]))}


def sample_args(rng, kwargs):
    model = MODELS[P['MODEL']]
    axis = P['AXIS']
    for _ in range(200):
        where = rng.randrange(P['WLO'], P['WHI']) if 'WLO' in P else rng.randrange(-1, 24)
        char = rng.choice(P['CHARS'] if 'CHARS' in P else (list(model.ws) + [48, 57, 65, 90, 97, 122,
                                                                              rng.randrange(33, 127)]))
        count = rng.randrange(0, 4)
        if spell(model, axis, where, char, count) is not None:
            break
    return {'where': where, 'char': char, 'count': count}


def explore():
    """native enumeration of every deviation (development aid and concrete side condition)"""
    problems = []
    for key, model in sorted(MODELS.items()):
        cls = model_class(model)
        try:
            reference = parse(model, canonical(model))
        except Exception as exc:  # pylint: disable=broad-except
            problems.append('%s: canonical %r rejected: %r' % (key, canonical(model), exc))
            continue
        for axis in model.axes + (('case_all',) if 'case' in model.axes else ()):
            seen = set()
            for where in range(-1, 40):
                for char in sorted({0x20, 0x09} | set(range(48, 58)) | set(range(65, 91)) | set(range(97, 123))):
                    for count in range(0, 4):
                        text = spell(model, axis, where, char, count)
                        if text is None or text in seen:
                            continue
                        seen.add(text)
                        try:
                            if axis == 'same':
                                text = bytes(reference.compose()).decode('ascii')
                            variant = parse(model, text)
                        except Exception as exc:  # pylint: disable=broad-except
                            problems.append('%s/%s: %r rejected (%s)' % (key, axis, text, type(exc).__name__))
                            continue
                        if not _equivalent(model, axis, cls, variant, reference):
                            problems.append('%s/%s: %r differs from %r' % (key, axis, text, canonical(model)))
    return problems


def explore_concrete():
    return explore()


def _slot_range(model, axis):
    seps = len(model.items) - 1 + (1 if model.prefix else 0)
    if axis == 'case':
        return 0, len(letter_slots(model))
    if axis == 'ws':
        return 0, len(ws_slots(model))
    if axis == 'unknown':
        return model.fixed, len(model.items) + 1
    if axis == 'empty':
        return 0, seps + (2 if model.leading_empty else 1)
    return None


STEP = {'case': 4, 'ws': 3, 'unknown': 1, 'empty': 4}
ALNUM = [ord(item) for item in '0123456789ABCDEFGHIJKLMNOPQRSTUVWXYZabcdefghijklmnopqrstuvwxyz']


def shards(tier, seed):
    import random  # pylint: disable=import-outside-toplevel
    rng = random.Random(seed + 18)
    out = []
    thorough = tier == 'thorough'
    for key, model in sorted(MODELS.items()):
        for axis in model.axes + (('case_all',) if 'case' in model.axes else ()):
            clause = model.clause.get(axis, model.clause.get('all', model.clause.get('case', '')))
            slots = _slot_range(model, axis)
            ranges = [None]
            if slots is not None:
                step, count = STEP[axis], slots[1]
                ranges = [(low, min(low + step, count)) for low in range(slots[0], count, step)]
                if not thorough and len(ranges) > 2:
                    # quick: the first range and one rotated with the seed; thorough: all of them (the native side
                    # condition below walks every deviation in both tiers)
                    ranges = [ranges[0], ranges[1 + rng.randrange(len(ranges) - 1)]]
                if not thorough and key.endswith(('_zero', '_quoted')) and len(ranges) > 1:
                    ranges = [ranges[rng.randrange(len(ranges))]]      # second value of a type: one range per axis
            windows = [None]
            if axis == 'unknown':
                # the name character of the added element: windows of 8 alphanumerics (quick: one, rotated)
                windows = [ALNUM[low:low + 8] for low in range(0, len(ALNUM), 8)]
                if not thorough:
                    windows = [windows[rng.randrange(len(windows))]]
                else:
                    rng.shuffle(windows)
                    windows = windows[:3]
            for span, window in itertools.product(ranges, windows):
                par = {'MODEL': key, 'AXIS': axis}
                label = '%s/%s' % (key, axis)
                where = 'every position'
                if span is not None:
                    par.update(WLO=span[0], WHI=span[1])
                    label += '/%d' % span[0]
                    where = 'positions %d..%d of %d' % (span[0], min(span[1], count) - 1, count)
                if window is not None:
                    par['CHARS'] = window
                    label += '/%s' % chr(window[0])
                    where += ', name character in %r' % ''.join(chr(item) for item in window)
                out.append(Shard(MOD, 'spelling', label, par, 400 if thorough else 60, group='%s/%s' % (key, axis),
                                 bounds='%s, value %r: one deviation of kind "%s" at %s, its character and length '
                                        'symbolic (%s)' % (model.cls, canonical(model), axis, where, clause)))
    names = ', '.join(name for name, _ in BLOCK)
    lows = list(range(0, len(BLOCK), 3))
    for low in (lows if thorough else [lows[rng.randrange(len(lows))]]):
        out.append(Shard(MOD, 'block', 'block/standalone/%d' % low, {'MODE': 'standalone', 'WLO': low, 'WHI': low + 3},
                         600 if thorough else 90, group='block/standalone',
                         bounds='header block of %d fields (%s): fields %d..%d each equal the field parsed on its own' % (
                             len(BLOCK), names, low, low + 2)))
    wheres = list(range(len(BLOCK)))
    windows = [ALNUM[low:low + 8] for low in range(0, len(ALNUM), 8)]
    if not thorough:
        rng.shuffle(wheres)
        wheres = wheres[:4]
    for index, where in enumerate(wheres):
        for window in (windows[:2] if thorough else [[48, 90, 97, 122]]):
            for mode in (('renamed', 'renamed_suffix') if thorough else (('renamed', 'renamed_suffix')[index % 2],)):
                out.append(Shard(MOD, 'block', 'block/%s/%d/%s' % (mode, where, chr(window[0])),
                                 {'MODE': mode, 'WLO': where, 'WHI': where + 1, 'CHARS': window},
                                 600 if thorough else 90, group='block/' + mode,
                                 bounds='header block of %d fields (%s): field %d renamed to an unknown name (%s, symbolic '
                                        'character in %r): kept as an unparsed field with the same value, all other '
                                        'fields unchanged' % (len(BLOCK), names, where,
                                                              'X?-<name>' if mode == 'renamed' else '<name>-?x',
                                                              ''.join(chr(item) for item in window))))
    out.append(Shard(MOD, 'explore_concrete', 'all_deviations_native', {}, kind='concrete',
                     bounds='every deviation of every axis of every model over alphanumeric name characters, natively'))
    return out
