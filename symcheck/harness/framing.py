# -*- coding: utf-8 -*-
"""C03 / C04 - stream framing units: consumed length, self-delimitation, missing-byte counts.

Every framing class gets a *reference header encoder* written from its specification (no code of
/repo): `build(header ints ..., body)` returns the buffer and the frame length the header declares.
Header integers are full-width solver variables; bodies are symbolic bytes of bounded length, or
(for records whose body must itself be a valid message) a concrete seed message plus symbolic
glue.
"""
from symcheck.api import deep_eq, parse_errors, reach
from symcheck.runner import Shard

from cryptoparser.common.exception import NotEnoughData, TooMuchData

MOD = __name__
P = {}

PARSE_ERRORS = parse_errors()


def u8(value):
    return bytes([value])


def u16(value):
    return bytes([value // 256, value % 256])


def u24(value):
    return bytes([value // 65536, (value // 256) % 256, value % 256])


def u32(value):
    return bytes([value // 16777216, (value // 65536) % 256, (value // 256) % 256, value % 256])


def u24le(value):
    return bytes([value % 256, (value // 256) % 256, value // 65536])


# --- frame table: name -> (class path, builder) -------------------------------------------------------------------
# builder(a, b, body) -> (buffer, declared frame length or None when the header itself is invalid by the spec)

SSH_KEXDH_INIT = bytes.fromhex('1e00000010000102030405060708090a0b0c0d0e0f')     # SSH_MSG_KEXDH_INIT, e = 16 bytes
SSH_DISCONNECT = bytes.fromhex('010000000200000006ceb1ceb2ceb300000005656e2d5553')
SSL2_ERROR = bytes.fromhex('0001')        # error code NO_CIPHER, preceded by message type 0
SSL2_CLIENT_HELLO = bytes.fromhex('00020006000800100100800700c00001020304050607000102030405060708090a0b0c0d0e0f')
HS_SERVER_HELLO_DONE = 14
HS_SERVER_KEY_EXCHANGE = 12
LDAP_RESPONSE_BODY = bytes.fromhex('02010178070a010004000400')   # messageID 1, extendedResp success


def _cls(path):
    import importlib  # pylint: disable=import-outside-toplevel
    module, name = path.rsplit('.', 1)
    return getattr(importlib.import_module(module), name)


def build_tls_record(a, b, body):
    # ContentType(1) ProtocolVersion(2) length(2) fragment[length]; a = declared length, b selects the content type
    ctype = [20, 21, 22, 23][b % 4]
    if not 0 <= a < 65536:
        return None, None
    return u8(ctype) + bytes(P.get('VERSION', [3, 3])) + u16(a) + body, 5 + a


def build_handshake(a, b, body):
    # HandshakeType(1) uint24 length, body[length]
    if not 0 <= a < 2 ** 24:
        return None, None
    declared = 4 + a
    if P['HSTYPE'] == HS_SERVER_HELLO_DONE and a != 0:
        declared = None     # struct {} ServerHelloDone: a non-empty body is not a conformant message
    return u8(P['HSTYPE']) + u24(a) + body, declared


def build_mysql(a, b, body):
    # int<3> payload_length (little endian), int<1> sequence_id, payload
    if not (0 <= a < 2 ** 24 and 0 <= b < 256):
        return None, None
    return u24le(a) + u8(b) + body, 4 + a


def build_tpkt(a, b, body):
    # RFC 1006: vrsn(1)=3 reserved(1) packet length(2, includes the 4 header octets)
    if not (0 <= a < 65536 and 0 <= b < 256):
        return None, None
    return u8(3) + u8(b) + u16(a) + body, (a if a >= 4 else None)


def build_openvpn_tcp(a, b, body):
    # uint16 packet length, packet
    if not 0 <= a < 65536:
        return None, None
    return u16(a) + body, 2 + a


def build_cotp(a, b, body):
    # X.224 CR/CC TPDU: LI(1) = number of octets that follow, code(1) dst-ref(2) src-ref(2) class(1) variable part
    if not (0 <= a < 256 and 0 <= b < 65536):
        return None, None
    code = P['COTP_CODE']
    return u8(a) + u8(code) + u16(b) + u16(0x1234) + u8(0) + body, (1 + a if a >= 6 else None)


def build_ssh_packet(a, b, body):
    # RFC 4253 s6: uint32 packet_length, byte padding_length, payload, padding;
    # packet_length = 1 + len(payload) + padding_length; total = 4 + packet_length
    if not (0 <= a < 2 ** 32 and 0 <= b < 256):
        return None, None
    payload = SSH_KEXDH_INIT if P.get('SSHMSG', 'kexdh') == 'kexdh' else SSH_DISCONNECT
    consistent = a == 1 + len(payload) + b
    return u32(a) + u8(b) + payload + body, (4 + a if consistent else None)


def build_ssl2_record(a, b, body):
    # SSL 2.0: 2-byte header (msb set): 15-bit record length, no padding; 3-byte header: 14-bit length, padding(1)
    # a = 16-bit first two octets, b = padding octet (3-byte form only); record = mtype(1) message padding
    if not (0 <= a < 65536 and 0 <= b < 256):
        return None, None
    message = u8(P['SSL2_MTYPE']) + (SSL2_ERROR if P['SSL2_MTYPE'] == 0 else SSL2_CLIENT_HELLO)
    if a >= 32768:
        length, header, padding = a - 32768, u16(a), 0
    else:
        length, header, padding = a % 16384, u16(a) + u8(b), b
    consistent = length == len(message) + padding
    return header + message + body, (len(header) + length if consistent else None)


def build_pg_sslrequest(a, b, body):
    # Int32(8) Int32(80877103)
    if not (0 <= a < 2 ** 32 and 0 <= b < 2 ** 32):
        return None, None
    return u32(a) + u32(b) + body, (8 if (a == 8 and b == 80877103) else None)


def build_ldap_response(a, b, body):
    # BER: SEQUENCE tag 0x30, definite length (short form a < 128), contents
    if not (0 <= a < 128 and 0 <= b < 256):
        return None, None
    return u8(0x30) + u8(a) + LDAP_RESPONSE_BODY + body, 2 + a


LDAP_LONG_BODY = bytes.fromhex('020101787d0a010004000476') + bytes(range(118))    # 130 content octets


def build_ldap_response_long(a, b, body):
    # BER long form: 0x30 0x81 LL contents (LL >= 128 needs the long form)
    if not (0 <= a < 256 and 0 <= b < 256):
        return None, None
    return u8(0x30) + u8(0x81) + u8(a) + LDAP_LONG_BODY + body, 3 + a


def build_hs_seeded(a, b, body):
    # any handshake message: HandshakeType(1) uint24 length body; body = the seed's body followed by symbolic bytes
    seed = bytes.fromhex(P['SEED'])
    if not 0 <= a < 2 ** 24:
        return None, None
    return seed[:1] + u24(a) + seed[4:] + body, 4 + a


FRAMES = {
    'ldap_response_long': ('cryptoparser.tls.ldap.LDAPExtendedResponseStartTLS', build_ldap_response_long, 3),
    'tls_record': ('cryptoparser.tls.record.TlsRecord', build_tls_record, 5),
    'hs_server_key_exchange': ('cryptoparser.tls.subprotocol.TlsHandshakeServerKeyExchange', build_handshake, 4),
    'hs_server_hello_done': ('cryptoparser.tls.subprotocol.TlsHandshakeServerHelloDone', build_handshake, 4),
    'mysql_record': ('cryptoparser.tls.mysql.MySQLRecord', build_mysql, 4),
    'tpkt': ('cryptoparser.tls.rdp.TPKT', build_tpkt, 4),
    'openvpn_tcp': ('cryptoparser.tls.openvpn.OpenVpnPacketWrapperTcp', build_openvpn_tcp, 2),
    'cotp_request': ('cryptoparser.tls.rdp.COTPConnectionRequest', build_cotp, 7),
    'cotp_confirm': ('cryptoparser.tls.rdp.COTPConnectionConfirm', build_cotp, 7),
    'ssh_packet_kexdh': ('cryptoparser.ssh.record.SshRecordKexDH', build_ssh_packet, 5),
    'ssh_packet_init': ('cryptoparser.ssh.record.SshRecordInit', build_ssh_packet, 5),
    'ssl2_record': ('cryptoparser.tls.record.SslRecord', build_ssl2_record, 2),
    'pg_sslrequest': ('cryptoparser.tls.postgresql.SslRequest', build_pg_sslrequest, 8),
    'ldap_response': ('cryptoparser.tls.ldap.LDAPExtendedResponseStartTLS', build_ldap_response, 2),
}

FRAME_PARAMS = {
    'hs_server_key_exchange': {'HSTYPE': HS_SERVER_KEY_EXCHANGE},
    'hs_server_hello_done': {'HSTYPE': HS_SERVER_HELLO_DONE},
    'cotp_request': {'COTP_CODE': 0xe0},
    'cotp_confirm': {'COTP_CODE': 0xd0},
    'ssh_packet_kexdh': {'SSHMSG': 'kexdh'},
    'ssh_packet_init': {'SSHMSG': 'disconnect'},
}


def _frame():
    if P['FRAME'] == 'hs_seeded':
        return _cls(P['CLASS']), build_hs_seeded, 4
    path, builder, header = FRAMES[P['FRAME']]
    return _cls(path), builder, header


def _parse_outcome(cls, data):
    try:
        obj, size = cls.parse_immutable(data)
    except PARSE_ERRORS as exc:
        return None, None, exc
    return obj, size, None


def selfdelim(a: int, b: int, body: bytes, suffix: bytes) -> bool:
    """post: _"""
    # C03: consumed length exact, equal to the declared frame length, independent of what follows
    cls, builder, _ = _frame()
    if len(body) > P['B'] or len(suffix) > 2:
        return True
    buf, declared = builder(a, b, body)
    if buf is None:
        return True
    obj, size, error = _parse_outcome(cls, buf)
    mutable = bytearray(buf)
    if error is not None:
        # a failed parse leaves the caller's buffer untouched
        try:
            cls.parse_mutable(mutable)
        except PARSE_ERRORS:
            reach()
            return bytes(mutable) == buf
        return False
    reach()
    if not 0 < size <= len(buf):
        return False
    if declared is None or size != declared:
        return False
    obj2, size2, error2 = _parse_outcome(cls, buf[:size])
    if error2 is not None or size2 != size or not deep_eq(obj2, obj):
        return False
    obj3, size3, error3 = _parse_outcome(cls, buf[:size] + suffix)
    if error3 is not None or size3 != size or not deep_eq(obj3, obj):
        return False
    cls.parse_mutable(mutable)
    if bytes(mutable) != buf[size:]:
        return False
    try:
        cls.parse_exact_size(buf)
        exact = True
    except TooMuchData:
        exact = False
    return exact == (size == len(buf))


FILLER = bytes(40000)


def filler(a: int, b: int, body: bytes) -> bool:
    """post: _"""
    # C03, far suffix: a complete frame parses the same whether or not 40 000 further bytes follow it
    cls, builder, _ = _frame()
    if len(body) > P['B']:
        return True
    buf, declared = builder(a, b, body)
    if buf is None or declared is None or declared > len(buf):
        return True
    obj, size, error = _parse_outcome(cls, buf)
    obj2, size2, error2 = _parse_outcome(cls, buf + FILLER)
    reach()
    if (error is None) != (error2 is None):
        return False
    if error is not None:
        return True
    return size == size2 and deep_eq(obj, obj2)


def prefix_needs(a: int, b: int, body: bytes) -> bool:
    """post: _"""
    # C04 (i): buffers of concrete length L with symbolic header: a not-enough-data answer asks for at least
    # one byte and at most as many as are really missing; a proper prefix is never accepted
    cls, builder, header = _frame()
    if len(body) != P['L']:
        return True
    full, declared = builder(a, b, body)
    if full is None or declared is None:
        return True
    length = len(full)
    if declared <= length and P.get('CUT') is None:
        return True
    buf = full if P.get('CUT') is None else full[:P['CUT']]
    length = len(buf)
    if declared <= length:
        return True
    obj, size, error = _parse_outcome(cls, buf)
    reach()
    if error is None:
        return False        # proper prefix of a frame accepted as a complete frame
    if not isinstance(error, NotEnoughData):
        return P.get('ALLOW_OTHER', False) and not isinstance(error, TooMuchData)
    needed = error.bytes_needed
    return 1 <= needed <= declared - length


def complete_frame(a: int, b: int, body: bytes) -> bool:
    """post: _"""
    # C04, upper bound at zero: once every byte of a frame is in the buffer the parser never asks for more
    cls, builder, _ = _frame()
    if len(body) > P['B']:
        return True
    buf, declared = builder(a, b, body)
    if buf is None or declared is None or declared > len(buf):
        return True
    if P['FRAME'].startswith('ldap') and declared != len(buf) - len(body):
        # the property quantifies over valid records: for BER the frame has to end where the (concrete, valid)
        # message ends; symbolic bytes inside the declared length are malformed inner TLVs, not in scope here
        return True
    _, _, error = _parse_outcome(cls, buf)
    reach()
    return not isinstance(error, NotEnoughData)


def composed_cuts(number: int, payload: bytes) -> bool:
    """post: _"""
    # C04 (ii): frames produced by the real compose(); every cut position
    if len(payload) > P['B'] or not 0 <= number < 256:
        return True
    obj = _compose_object(number, payload)
    if obj is None:
        return True
    cls = type(obj)
    frame = bytes(obj.compose())
    for cut in range(len(frame)):
        try:
            cls.parse_immutable(frame[:cut])
        except NotEnoughData as exc:
            if not 1 <= exc.bytes_needed <= len(frame) - cut:
                return False
            continue
        except PARSE_ERRORS:
            return False
        return False
    reach()
    parsed, size = cls.parse_immutable(frame)
    return size == len(frame) and deep_eq(parsed, obj)


def _compose_object(number, payload):
    kind = P['KIND']
    if kind == 'tls_record':
        from cryptoparser.tls.record import TlsRecord  # pylint: disable=import-outside-toplevel
        return TlsRecord(payload)
    if kind == 'mysql_record':
        from cryptoparser.tls.mysql import MySQLRecord  # pylint: disable=import-outside-toplevel
        return MySQLRecord(number, payload)
    if kind == 'tpkt':
        from cryptoparser.tls.rdp import TPKT  # pylint: disable=import-outside-toplevel
        return TPKT(3, payload)
    if kind == 'openvpn_tcp':
        from cryptoparser.tls.openvpn import OpenVpnPacketWrapperTcp  # pylint: disable=import-outside-toplevel
        return OpenVpnPacketWrapperTcp(payload)
    if kind == 'server_key_exchange':
        from cryptoparser.tls.subprotocol import TlsHandshakeServerKeyExchange  # pylint: disable=import-outside-toplevel
        return TlsHandshakeServerKeyExchange(payload)
    if kind == 'ssh_kexdh_init':
        from cryptoparser.ssh.record import SshRecordKexDH  # pylint: disable=import-outside-toplevel
        from cryptoparser.ssh.subprotocol import SshDHKeyExchangeInit  # pylint: disable=import-outside-toplevel
        return SshRecordKexDH(SshDHKeyExchangeInit(payload))
    if kind == 'cotp_request':
        from cryptoparser.tls.rdp import COTPConnectionRequest  # pylint: disable=import-outside-toplevel
        return COTPConnectionRequest(src_ref=number, user_data=payload)
    if kind == 'ldap_response':
        from cryptoparser.tls.ldap import LDAPExtendedResponseStartTLS, LDAPResultCode  # pylint: disable=import-outside-toplevel
        if len(payload) > 0:
            return None
        codes = [LDAPResultCode.SUCCESS, LDAPResultCode.PROTOCOL_ERROR, LDAPResultCode.UNAVAILABLE]
        return LDAPExtendedResponseStartTLS(codes[number % 3])
    if kind == 'ldap_request':
        from cryptoparser.tls.ldap import LDAPExtendedRequestStartTLS  # pylint: disable=import-outside-toplevel
        if len(payload) > 0:
            return None
        return LDAPExtendedRequestStartTLS()
    if kind == 'pg_sslrequest':
        from cryptoparser.tls.postgresql import SslRequest  # pylint: disable=import-outside-toplevel
        if len(payload) > 0:
            return None
        return SslRequest()
    if kind == 'ssl2_error':
        from cryptoparser.tls.record import SslRecord  # pylint: disable=import-outside-toplevel
        from cryptoparser.tls.subprotocol import SslErrorMessage, SslErrorType  # pylint: disable=import-outside-toplevel
        if len(payload) > 0:
            return None
        return SslRecord(SslErrorMessage(list(SslErrorType)[number % len(list(SslErrorType))]))
    raise NotImplementedError(kind)


def reader_loop(pay1: bytes, pay2: bytes, chunk1: int, chunk2: int, chunk3: int) -> bool:
    """post: _"""
    # C04-L: the reader described by the property, over two concatenated composed records, delivered in chunks
    if len(pay1) > P['B'] or len(pay2) > P['B']:
        return True
    extras = [chunk1, chunk2, chunk3]
    for extra in extras:
        if not 0 <= extra <= P['CHUNK']:
            return True
    first, second = _compose_object(1, pay1), _compose_object(2, pay2)
    if first is None or second is None:
        return True
    cls = type(first)
    frame1 = bytes(first.compose())
    stream = frame1 + bytes(second.compose())
    ends = [len(frame1), len(stream)]
    delivered = 0
    buffer = bytearray()
    records = []
    want = 1
    step = 0
    while len(records) < 2:
        # the network hands over at least the bytes the reader waits for, possibly a few more (arbitrary fragments)
        if delivered + want > ends[len(records)]:
            return False          # the reader waits for more bytes than the sender has written for this record
        extra = extras[step] if step < len(extras) else 0
        step += 1
        size = want + extra
        if delivered + size > len(stream):
            size = len(stream) - delivered
        buffer += stream[delivered:delivered + size]
        delivered += size
        want = 0
        while len(records) < 2:
            try:
                records.append(cls.parse_mutable(buffer))
            except NotEnoughData as exc:
                want = exc.bytes_needed
                if want < 1:
                    return False
                break
            except PARSE_ERRORS:
                return False
        if want == 0 and len(records) < 2:
            return False
    reach()
    return deep_eq(records[0], first) and deep_eq(records[1], second) and delivered == len(stream) and not buffer


def banner_selfdelim(tail: bytes, suffix: bytes) -> bool:
    """post: _"""
    # SSH identification string: terminated by the first LF; n counts up to and including it
    if len(tail) > P['B'] or len(suffix) > P.get('S', 2):
        return True
    if len(tail) >= 1 and not P.get('LO', 0) <= tail[0] < P.get('HI', 256):
        return True
    if len(tail) == 0 and P.get('LO', 0) != 0:
        return True
    cls = _cls('cryptoparser.ssh.subprotocol.SshProtocolMessage')
    buf = b'SSH-2.0-a' + tail + b'\r\n' + suffix
    obj, size, error = _parse_outcome(cls, buf)
    if error is not None:
        return True
    reach()
    newline = -1
    for idx in range(len(buf)):
        if buf[idx] == 10:
            newline = idx
            break
    if newline < 0 or size != newline + 1:
        return False
    obj2, size2, error2 = _parse_outcome(cls, buf[:size])
    return error2 is None and size2 == size and deep_eq(obj2, obj)


def sample_args(rng, kwargs):
    """differential runs: small declared lengths so that complete and truncated frames both occur"""
    out = {}
    for name in kwargs:
        if name == 'a':
            out[name] = rng.choice([rng.randrange(0, 40), rng.randrange(0, 40), 32768 + rng.randrange(0, 40), 130, 131])
        elif name == 'b':
            out[name] = rng.randrange(0, 8)
        elif name in ('chunk1', 'chunk2', 'chunk3'):
            out[name] = rng.randrange(0, 3)
        elif name == 'number':
            out[name] = rng.randrange(0, 256)
        elif name in ('pay1', 'pay2', 'payload'):
            out[name] = bytes(rng.randrange(256) for _ in range(rng.randrange(0, 2)))
    return out


def shards_c03(tier, seed):  # pylint: disable=unused-argument
    out = []
    body = 6 if tier == 'thorough' else 4
    small = {'ldap_response': 0, 'ldap_response_long': 0, 'ssl2_record': 3}
    for name in FRAMES:
        par = dict(FRAME_PARAMS.get(name, {}), FRAME=name, B=body if tier == 'thorough' else small.get(name, body))
        variants = [par]
        if name == 'ssl2_record':
            variants = [dict(par, SSL2_MTYPE=0), dict(par, SSL2_MTYPE=1)]
        for idx, vpar in enumerate(variants):
            label = 'selfdelim/%s%s' % (name, '' if len(variants) == 1 else '-%d' % idx)
            out.append(Shard(MOD, 'selfdelim', label, vpar, 600 if tier == 'thorough' else 80,
                             bounds='header integers full width (declared length: every value of its field), body '
                                    '<= %d symbolic bytes, suffix <= 2 symbolic bytes' % vpar['B']))
    for name in FRAMES:
        par = dict(FRAME_PARAMS.get(name, {}), FRAME=name, B=1)
        variants = [par] if name != 'ssl2_record' else [dict(par, SSL2_MTYPE=0), dict(par, SSL2_MTYPE=1)]
        for idx, vpar in enumerate(variants):
            out.append(Shard(MOD, 'filler', 'filler/%s%s' % (name, '' if len(variants) == 1 else '-%d' % idx), vpar,
                             240, bounds='header integers full width, body <= 1 symbolic byte; the same frame '
                                         'followed by 40000 zero bytes'))
    from symcheck.harness import registry  # pylint: disable=import-outside-toplevel
    for cls, seeds in registry.seeded_classes():
        name = registry.class_name(cls)
        if not name.startswith('cryptoparser.tls.subprotocol.TlsHandshake') or not hasattr(cls, 'get_handshake_type'):
            continue
        usable = [item for item in seeds if 4 <= len(item) <= 200 and int.from_bytes(item[1:4], 'big') == len(item) - 4]
        if not usable:
            continue
        data = min(usable, key=len)
        out.append(Shard(MOD, 'selfdelim', 'selfdelim/hs/%s' % cls.__name__,
                         {'FRAME': 'hs_seeded', 'CLASS': name, 'SEED': data.hex(), 'B': 2},
                         600 if tier == 'thorough' else 100,
                         bounds='handshake header length: every 24-bit value; body = accepted %d-byte vector + <= 2 '
                                'symbolic bytes; suffix <= 2 symbolic bytes' % len(data)))
    blen, slen = (2, 2) if tier == 'thorough' else (1, 1)
    for low in range(0, 128, 16):     # bytes >= 0x80 are never accepted in a banner (ASCII): nothing to compare
        out.append(Shard(MOD, 'banner_selfdelim', 'selfdelim/ssh_banner/%02x' % low,
                         {'B': blen, 'S': slen, 'LO': low, 'HI': low + 16}, 900 if tier == 'thorough' else 100,
                         bounds='"SSH-2.0-a" + <= %d symbolic bytes (first one in %d..%d) + CR LF + <= %d symbolic '
                                'bytes' % (blen, low, low + 15, slen)))
    return out


def shards_c04(tier, seed):  # pylint: disable=unused-argument
    out = []
    lengths = range(0, 7 if tier == 'thorough' else 5)
    for name in FRAMES:
        base = dict(FRAME_PARAMS.get(name, {}), FRAME=name)
        if name == 'ssl2_record':
            base['SSL2_MTYPE'] = 0
        fixed = name in ('hs_server_hello_done', 'pg_sslrequest')   # frame == header: only cuts inside the header
        for length in lengths:
            if fixed:
                continue
            out.append(Shard(MOD, 'prefix_needs', 'prefix/%s/L%d' % (name, length), dict(base, L=length), 90,
                             bounds='header integers full width, %d symbolic body bytes present, frame longer '
                                    'than the buffer' % length))
        header = FRAMES[name][2]
        for cut in range(0, header + (0 if fixed else 1)):
            out.append(Shard(MOD, 'prefix_needs', 'prefix/%s/cut%d' % (name, cut), dict(base, L=1, CUT=cut), 90,
                             bounds='buffer cut after %d header bytes, header integers full width' % cut))
    for name in FRAMES:
        base = dict(FRAME_PARAMS.get(name, {}), FRAME=name, B=3)
        variants = [base] if name != 'ssl2_record' else [dict(base, SSL2_MTYPE=0), dict(base, SSL2_MTYPE=1)]
        for idx, vpar in enumerate(variants):
            out.append(Shard(MOD, 'complete_frame', 'complete/%s%s' % (name, '' if len(variants) == 1 else '-%d' % idx),
                             vpar, 150, bounds='header integers full width, body <= 3 symbolic bytes, whole frame '
                                                'present: not-enough-data is never answered'))
    for kind in ('tls_record', 'mysql_record', 'tpkt', 'openvpn_tcp', 'server_key_exchange', 'ssh_kexdh_init',
                 'cotp_request', 'ldap_response', 'ldap_request', 'pg_sslrequest', 'ssl2_error'):
        out.append(Shard(MOD, 'composed_cuts', 'composed_cuts/' + kind, {'KIND': kind, 'B': 4}, 120,
                         bounds='frames from the real compose(), payload <= 4 symbolic bytes, every cut position'))
    for kind in ('tls_record', 'mysql_record', 'tpkt', 'ldap_response', 'ssl2_error', 'pg_sslrequest') + (
            ('ssh_kexdh_init', 'openvpn_tcp', 'ldap_request') if tier == 'thorough' else ()):
        rpar = {'KIND': kind, 'B': 2, 'CHUNK': 3} if tier == 'thorough' else {'KIND': kind, 'B': 1, 'CHUNK': 2}
        out.append(Shard(MOD, 'reader_loop', 'reader_loop/' + kind, rpar, 1200 if tier == 'thorough' else 150,
                         bounds='two composed records, payloads <= %(B)d symbolic bytes, surplus <= %(CHUNK)d;' % rpar + ' every delivery = the bytes the reader '
                                'waits for + a symbolic surplus of 0..3 bytes (first three deliveries), then exact'))
    return out
