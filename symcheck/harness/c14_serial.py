# -*- coding: utf-8 -*-
"""C14 - JSON and Markdown output is always well-formed, deterministic and faithful.

Symbolic part (see DESIGN.md 10.3): on objects parsed from single-byte windows of accepted vectors, built by the
real constructors, or holding a set filled in two orders, the recursion json.dumps performs - JSON-native values as
they are, everything else through the encoder hook the library installs, applied again to its result (_tree) -
ends in a value closed under {dict with str keys, list, str, int, float, bool, None}, the Markdown rendering is a
str, and both are identical for the object and for parse(compose(object)).  json.dumps / json.loads themselves run
natively in the differential and replay steps (CrossHair's json model does not honour the library's
JSONEncoder.default patch) and are compared with _tree there.
Native part: every enum member; all member triples of the set-valued fields; history and hash-seed independence -
three serialisation orders x four PYTHONHASHSEED values in fresh interpreters, with and without class-level text
encoders, must give byte-identical JSON and Markdown for every seed object.
"""
import json
import os
import subprocess
import sys

from symcheck import api
from symcheck.api import reach
from symcheck.harness import registry
from symcheck.runner import Shard

MOD = __name__
P = {}


class NotRenderable(Exception):
    pass


def _tree(value, depth=0):
    """what json.dumps makes of a value: JSON-native values as they are, everything else through the encoder hook the
    library installs (JSONEncoder.default -> Serializable._json_traverse), applied again to whatever it returns -
    exactly the recursion of the C and the pure-Python json encoder.  The result is closed under
    {dict with str keys, list, str, int, float, bool, None} or NotRenderable is raised (json.dumps: TypeError /
    ValueError 'Circular reference')."""
    from cryptoparser.common.base import Serializable  # pylint: disable=import-outside-toplevel
    if depth > 60:
        raise NotRenderable('nesting deeper than 60: the encoder hook does not converge')
    if value is None or isinstance(value, (bool, int, float, str)):
        return value
    if isinstance(value, dict):
        out = []
        for key, item in value.items():
            if not (key is None or isinstance(key, (str, int, float, bool))):
                raise NotRenderable('dict key of type %s' % type(key).__name__)
            out.append([key, _tree(item, depth + 1)])
        return {'__dict__': out}
    if isinstance(value, (list, tuple)):
        return [_tree(item, depth + 1) for item in value]
    hooked = Serializable._json_traverse(value, Serializable._json_result)  # pylint: disable=protected-access
    if hooked is value or (type(hooked) is type(value) and not isinstance(hooked, (dict, list, tuple, str))):
        raise NotRenderable('encoder hook leaves a %s as it is' % type(value).__name__)
    return _tree(hooked, depth + 1)


def _pairs(pairs):
    return {'__dict__': [[key, item] for key, item in pairs]}


def _key(key):
    """json renders non-str keys as their JSON text"""
    if isinstance(key, str):
        return key
    return json.dumps(key)


def _plain(value):
    """normal form for comparison: dict keys as json prints them, tuples as lists"""
    if isinstance(value, dict) and list(value) == ['__dict__']:
        return {'__dict__': [[_key(key), _plain(item)] for key, item in value['__dict__']]}
    if isinstance(value, (list, tuple)):
        return [_plain(item) for item in value]
    return value


def serialise(val: int) -> bool:
    """post: _"""
    if not 0 <= val < 256:
        return True
    if P.get('ALPHABET') and not any([val == char for char in P['ALPHABET']]):  # pylint: disable=use-a-generator
        return True
    cls = registry.resolve(P['CLASS'])
    seed = bytes.fromhex(P['SEED'])
    pos = P['POS']
    data = seed[:pos] + bytes([val]) + seed[pos + 1:]
    try:
        obj = cls.parse_exact_size(data)
    except Exception:  # pylint: disable=broad-except
        return True
    reach()
    first = _render_checks(obj)
    if first is None:
        return False
    if first is TOLERATED or not hasattr(obj, 'compose'):
        return True
    try:
        again = cls.parse_exact_size(bytes(obj.compose()))
    except Exception:  # pylint: disable=broad-except
        return True         # C05's subject
    second = _render_checks(again)
    if second is None:
        return False
    if second is TOLERATED:
        return True
    if _plain(second[0]) != _plain(first[0]):
        api.note('JSON differs after compose + parse', _plain(first[0]), _plain(second[0]))
        return False
    if second[1] != first[1]:
        api.note('Markdown differs after compose + parse')
        return False
    return True


def _markdown(obj):
    from cryptoparser.common.base import Serializable  # pylint: disable=import-outside-toplevel
    if hasattr(obj, 'as_markdown'):
        return obj.as_markdown()
    return Serializable._markdown_result(obj)[1]  # pylint: disable=protected-access


TOLERATED = ('tolerated', 'tolerated')


def _render_checks(obj):
    """JSON tree closed, Markdown is text; returns (tree, markdown) or None after noting the problem; an exception
    escaping the renderers is reported with its raise site (TOLERATED when that site is a listed known finding)"""
    try:
        tree = _tree(obj)
        markdown = _markdown(obj)
    except NotRenderable as exc:
        api.note('json.dumps cannot render the object: %s' % exc)
        return None
    except Exception as exc:  # pylint: disable=broad-except
        api.escaped(exc)
        return TOLERATED
    if not isinstance(markdown, str):
        api.note('Markdown rendering is a %s, not text' % type(markdown).__name__)
        return None
    if P.get('NATIVE_JSON'):
        if _plain(json.loads(json.dumps(obj), object_pairs_hook=_pairs)) != _plain(tree):
            api.note('json.dumps(obj) differs from the traversal the harness checks')
            return None
    return tree, markdown


def constructed(a: int, b: int, c: int, data: bytes, flag: bool) -> bool:
    """post: _"""
    from symcheck.harness import c01_roundtrip  # pylint: disable=import-outside-toplevel
    if len(data) > P['B'] or not (0 <= a < 2 ** 64 and 0 <= b < 2 ** 64 and 0 <= c < 2 ** 64):
        return True
    if 'ALO' in P and not P['ALO'] <= a < P['AHI']:
        return True
    obj = c01_roundtrip.BUILDERS[P['KIND']](a, b, c, data, flag)
    if obj is None:
        return True
    reach()
    first = _render_checks(obj)
    if first is None:
        return False
    if first is TOLERATED:
        return True
    try:
        again = type(obj).parse_exact_size(bytes(obj.compose()))
    except Exception:  # pylint: disable=broad-except
        return True         # C01's subject
    second = _render_checks(again)
    if second is None:
        return False
    if second is TOLERATED:
        return True
    if _plain(second[0]) != _plain(first[0]):
        api.note('JSON differs after compose + parse', first[0], second[0])
        return False
    if second[1] != first[1]:
        api.note('Markdown differs after compose + parse')
        return False
    return True


def replay_constructed(a, b, c, data, flag):
    P['NATIVE_JSON'] = True
    return constructed(a, b, c, data, flag)


def sample_constructed(rng, kwargs):
    from symcheck.harness import c01_roundtrip  # pylint: disable=import-outside-toplevel
    c01_roundtrip.P.update(P)
    return c01_roundtrip.sample_args(rng, kwargs)


def _set_valued():
    from cryptoparser.tls import mysql  # pylint: disable=import-outside-toplevel
    base = dict(protocol_version=mysql.MySQLVersion.MYSQL_9, server_version='1', connection_id=1,
                auth_plugin_data=b'12345678', character_set=mysql.MySQLCharacterSet.UTF8)
    if P['FIELD'] == 'capabilities':
        members = [member for member in mysql.MySQLCapability if member != mysql.MySQLCapability.CLIENT_PLUGIN_AUTH]
        return members, lambda value: mysql.MySQLHandshakeV10(capabilities=value, states=set(), **base)
    members = list(mysql.MySQLStatusFlag)
    return members, lambda value: mysql.MySQLHandshakeV10(capabilities=set(), states=value, **base)


def _value_kinds(val, object_keys=False):
    """an application report object (plain __dict__, like the analysis results built on this library) holding every
    kind of value the renderers promise to handle, as attribute value, list element, mapping value and mapping key"""
    import datetime  # pylint: disable=import-outside-toplevel
    import ipaddress  # pylint: disable=import-outside-toplevel
    import urllib3  # pylint: disable=import-outside-toplevel
    from cryptodatahub.tls.algorithm import TlsNamedCurve  # pylint: disable=import-outside-toplevel
    from cryptodatahub.tls.version import TlsVersion  # pylint: disable=import-outside-toplevel
    from cryptoparser.tls.subprotocol import TlsAlertLevel  # pylint: disable=import-outside-toplevel
    from cryptoparser.tls.version import TlsProtocolVersion  # pylint: disable=import-outside-toplevel
    raw = bytes([val, 0xfe])
    version = TlsProtocolVersion(TlsVersion.TLS1_2)
    instant = datetime.datetime(2020, 1, 2, 3, 4, 5)
    # floats, text and durations derived from the symbolic byte multiply the paths (their str() is realised value by
    # value): they depend on the byte only in the native runs
    dependent = val if object_keys else 65
    values = [raw, bytearray(raw), val, dependent / 2.0, val == 0, None, chr(dependent) + u'\xe9', [raw, [val, None]],
              (raw, val), version, instant, instant.date(), datetime.timedelta(seconds=dependent),
              ipaddress.ip_network(u'192.0.2.0/24'),
              urllib3.util.parse_url('https://example.com/x'), TlsAlertLevel.FATAL, TlsNamedCurve.SECP256R1, [], {}]
    report = _Holder(values, {'text': raw})
    report.by_bytes = {raw: values[:4]}
    report.by_int = {val: raw, -1: None}
    report.by_tuple = {(dependent, 1): instant}
    # mappings with concrete keys are real dicts (CrossHair's dict model looks keys up by its own equality search)
    from crosshair.tracers import NoTracing  # pylint: disable=import-outside-toplevel
    with NoTracing():
        if object_keys:
            # CrossHair's OrderedDict model does not find keys with a custom __eq__ / __hash__ again: native runs only
            report.by_object = {version: [raw, None]}
        report.by_date = {instant.date(): raw}
        report.by_enum = {TlsAlertLevel.FATAL: raw, TlsAlertLevel.WARNING: val}
        report.by_none = {None: val}
    report.empty = _Holder([], {})
    return report


def value_kinds(val: int) -> bool:
    """post: _"""
    if not P.get('LO', 0) <= val < P.get('HI', 256):
        return True
    report = _value_kinds(val)
    reach()
    return _render_checks(report) is not None


def replay_value_kinds(val):
    P['NATIVE_JSON'] = True
    return value_kinds(val)


def value_kinds_native():
    """the same report object for every content byte, with library objects as mapping keys too, natively"""
    problems = []
    P['NATIVE_JSON'] = True
    for val in range(256):
        del api.NOTES[:]
        try:
            if _render_checks(_value_kinds(val, object_keys=True)) is None:
                problems.append('report object with content byte %d: %s' % (val, '; '.join(api.NOTES)))
        except Exception as exc:  # pylint: disable=broad-except
            problems.append('report object with content byte %d: %s: %s' % (val, type(exc).__name__, str(exc)[:160]))
        if len(problems) > 3:
            break
    P.pop('NATIVE_JSON', None)
    return problems


def sample_value_kinds(rng, kwargs):
    return {'val': rng.randrange(P.get('LO', 0), P.get('HI', 256))}


def _native_sets(picked):
    """the same concrete members inserted in both orders into real sets (not CrossHair's ordered set model: the
    subject is CPython's collision-dependent iteration order)"""
    from crosshair.tracers import NoTracing  # pylint: disable=import-outside-toplevel
    with NoTracing():
        forward, backward = set(), set()
        for member in picked:
            forward.add(member)
        for member in reversed(picked):
            backward.add(member)
    return forward, backward


def set_order(i: int) -> bool:
    """post: _"""
    members, build = _set_valued()
    if not 0 <= i < len(members):
        return True
    picked = [members[P['J']], members[P['K']]]
    for pos, member in enumerate(members):      # fork on the index: the members are concrete
        if pos == i:
            picked.append(member)
    forward, backward = _native_sets(picked)
    if P.get('FROZEN'):
        forward, backward = frozenset(forward), frozenset(backward)
    one, two = build(forward), build(backward)
    reach()
    if one != two:
        return True
    first, second = _render_checks(one), _render_checks(two)
    if first is None or second is None:
        return False
    if first is TOLERATED or second is TOLERATED:
        return True
    if _plain(first[0]) != _plain(second[0]) or first[1] != second[1]:
        api.note('equal objects render differently: the set was filled in another order')
        return False
    return True


def sample_set_order(rng, kwargs):
    members, _ = _set_valued()
    return {'i': rng.randrange(len(members))}


def set_orders_native():
    """every ordered triple of members of the two set-valued fields, natively: equal objects, identical output"""
    import itertools  # pylint: disable=import-outside-toplevel
    problems = []
    for field in ('capabilities', 'states'):
        P['FIELD'] = field
        members, build = _set_valued()
        for picked in itertools.product(members, repeat=3):
            forward, backward = set(), set()
            for member in picked:
                forward.add(member)
            for member in reversed(picked):
                backward.add(member)
            for kind in (set, frozenset):
                one, two = build(kind(forward)), build(kind(backward))
                if one == two and (json.dumps(one) != json.dumps(two) or _markdown(one) != _markdown(two)):
                    problems.append('%s (%s) filled as %s and in reverse: equal objects, different output' % (
                        field, kind.__name__, '+'.join(member.name for member in picked)))
            if len(problems) > 5:
                return problems
    return problems


class _Holder(object):  # pylint: disable=too-few-public-methods
    """an application object holding library values: rendered through the encoder hook by its __dict__"""
    def __init__(self, items, mapping):
        self.items = items
        self.mapping = mapping


def enum_members():
    """every member of every enum class of the library has a JSON and a Markdown rendering"""
    import enum  # pylint: disable=import-outside-toplevel
    import inspect  # pylint: disable=import-outside-toplevel
    from cryptoparser.common.base import Serializable  # pylint: disable=import-outside-toplevel
    registry.import_all()
    problems, seen = [], set()
    for modname, module in sorted(sys.modules.items()):
        if not modname.startswith(('cryptoparser.', 'cryptodatahub.')):
            continue
        for _, cls in inspect.getmembers(module, inspect.isclass):
            if not issubclass(cls, enum.Enum) or cls in seen:
                continue
            seen.add(cls)
            for member in cls:
                where = '%s.%s.%s' % (cls.__module__, cls.__name__, member.name)
                try:
                    json.loads(json.dumps(member))
                    json.loads(json.dumps(_Holder([member, None], {member: 1})))   # as a field value and as a key
                    text = Serializable._markdown_result(member)[1]  # pylint: disable=protected-access
                    if not isinstance(text, str):
                        problems.append('%s: Markdown rendering is a %s' % (where, type(text).__name__))
                except Exception as exc:  # pylint: disable=broad-except
                    problems.append('%s: %s: %s' % (where, type(exc).__name__, str(exc)[:120]))
                if len(problems) > 40:
                    return problems
    P['ENUM_MEMBERS'] = sum(len(cls) for cls in seen)
    return problems


def replay_serialise(val):
    P['NATIVE_JSON'] = True
    return serialise(val)


# --- native: order and hash-seed independence -----------------------------------------------------------------------------

WORKER = r'''
import hashlib, json, random, sys
sys.path.insert(0, sys.argv[1])
from symcheck.harness import registry, c14_serial
order, out = sys.argv[2], {}
objects = []
for cls, _ in registry.seeded_classes():
    for data, obj in registry.accepted_seeds(cls)[:2]:
        objects.append((registry.class_name(cls) + ':%d:' % len(objects) + data.hex()[:24], obj))
if len(sys.argv) > 3 and sys.argv[3].startswith('encoders'):
    # class-level encoder state: every second Serializable class gets a text encoder of its own that marks its
    # output; the others inherit Serializable's.  A swap that is not undone, or undone on the wrong class, changes
    # what later objects look like - and that depends on the order.
    from cryptoparser.common.base import Serializable, SerializableTextEncoder
    class Marking(SerializableTextEncoder):
        def __init__(self, tag):
            self.tag = tag
        def __call__(self, obj, level):
            multiline, text = SerializableTextEncoder.__call__(self, obj, level)
            return multiline, text + self.tag
    def subclasses(cls, found):
        for sub in cls.__subclasses__():
            if sub not in found:
                found.add(sub)
                subclasses(sub, found)
        return found
    named = sorted(subclasses(Serializable, set()), key=lambda item: (item.__module__, item.__qualname__))
    for index, cls in enumerate(named):
        if index % 2 == int(sys.argv[3][-1]) and 'post_text_encoder' not in cls.__dict__:
            cls.post_text_encoder = Marking('<%d>' % index)
if order == 'reverse':
    objects.reverse()
elif order == 'shuffle':
    random.Random(7).shuffle(objects)
for name, obj in objects:
    pair = ['json', 'markdown'] if order != 'reverse' else ['markdown', 'json']
    for kind in pair:
        try:
            text = json.dumps(obj) if kind == 'json' else c14_serial._markdown(obj)
            if kind == 'json':
                json.loads(text)
            if not isinstance(text, str):
                text = 'NOT-A-STR ' + repr(type(text))
        except Exception as exc:
            text = 'EXCEPTION ' + type(exc).__name__ + ': ' + str(exc)[:120]
        out[name + '/' + kind] = text
print(json.dumps(out))
'''


def orders_and_hash_seeds():
    """every seed object serialised in three orders under three hash seeds: identical, well-formed output"""
    problems = []
    verif = registry.VERIF
    for mode in ('plain', 'encoders0', 'encoders1'):
        runs = {}
        for order, hashseed in (('forward', '0'), ('reverse', '1'), ('shuffle', '2'), ('forward', '3')):
            env = dict(os.environ, PYTHONHASHSEED=hashseed)
            proc = subprocess.run([sys.executable, '-c', WORKER, verif, order, mode], capture_output=True, text=True,
                                  env=env, timeout=900, check=False)
            try:
                runs[(order, hashseed)] = json.loads(proc.stdout.strip().splitlines()[-1])
            except (IndexError, ValueError):
                problems.append('serialisation worker (%s, hash seed %s, %s) failed: %s' % (order, hashseed, mode,
                                                                                           proc.stderr[-300:]))
        if len(runs) < 2:
            return problems
        keys = list(runs)
        base = runs[keys[0]]
        for name, text in sorted(base.items()):
            if text.startswith(('EXCEPTION', 'NOT-A-STR')):
                problems.append('%s: %s' % (name, text[:200]))
                continue
            for other in keys[1:]:
                if runs[other].get(name) != text:
                    problems.append('%s differs between (%s, PYTHONHASHSEED=%s) and (%s, PYTHONHASHSEED=%s)%s' % (
                        (name,) + keys[0] + other + (' with class-level text encoders installed'
                                                     if mode != 'plain' else '',)))
                    break
    return problems[:60]


def sample_args(rng, kwargs):
    return {'val': rng.choice(P['ALPHABET']) if P.get('ALPHABET') else rng.randrange(256)}


def shards(tier, seed):
    import random  # pylint: disable=import-outside-toplevel
    from symcheck.harness import windows  # pylint: disable=import-outside-toplevel
    rng = random.Random(seed + 14)
    thorough = tier == 'thorough'
    out, ser = [], []
    for cls, _ in registry.seeded_classes():
        name = registry.class_name(cls)
        accepted = [data for data, _ in registry.accepted_seeds(cls)]
        if not accepted:
            continue
        data = min(accepted, key=lambda item: (len(item), item))
        if not data or len(data) > 200:
            continue
        short = name.replace('cryptoparser.', '')
        text = windows.is_text_class(name)
        positions = windows.thorough_positions(len(data), rng) if thorough else [rng.randrange(len(data))]
        for pos in positions:
            ser.append(Shard(MOD, 'serialise', 'ser/%s/p%d' % (short, pos),
                             {'CLASS': name, 'SEED': data.hex(), 'POS': pos,
                              'ALPHABET': (windows.ALPHABET + [data[pos]]) if (text and not thorough) else None},
                             90 if thorough else 20,
                             bounds='object parsed from an accepted %d-byte vector with byte %d symbolic: JSON tree '
                                    'closed under JSON types, Markdown is str, both unchanged by compose + parse' % (
                                        len(data), pos), group='ser/' + short))
    from symcheck.harness import c01_roundtrip  # pylint: disable=import-outside-toplevel
    kinds = sorted(c01_roundtrip.BUILDERS)
    if not thorough:
        rng.shuffle(kinds)
        kinds = sorted(kinds[:6])
    for kind in kinds:
        par = {'KIND': kind, 'B': 2 if thorough else 1}
        enum_path = c01_roundtrip.ENUM_SIZES.get(kind)
        if enum_path:
            size = len(list(registry.resolve(enum_path)))
            step = 16
            lows = list(range(0, size, step))
            if not thorough:
                lows = sorted({lows[0], lows[(seed + 1) % len(lows)]})
            for low in lows:
                out.append(Shard(MOD, 'constructed', 'built/%s/%d' % (kind, low), dict(par, ALO=low, AHI=low + step),
                                 240 if thorough else 40, group='built/' + kind,
                                 bounds='object built by the real constructor (enum index %d..%d, integers full width, '
                                        '<= %d opaque bytes): JSON closed, Markdown text, unchanged by compose + parse' % (
                                            low, low + step - 1, par['B'])))
            continue
        out.append(Shard(MOD, 'constructed', 'built/' + kind, par, 300 if thorough else 40,
                         bounds='object built by the real constructor (integers full width, <= %d opaque bytes, one '
                                'optional element toggled): JSON closed, Markdown text, unchanged by compose + parse'
                                % par['B']))
    for field, count in (('capabilities', 24), ('states', 14)):
        pairs = [(j, k) for j in range(count) for k in range(j + 1, count)]
        rng.shuffle(pairs)
        # CPython keeps small sets in 8 slots: members whose hash (= flag value) agrees mod 8 collide
        for j, k in ([(3, 4)] + pairs[:30] if thorough else [(3, 4)] + pairs[:1]):
            frozen = (j + k) % 2 == 1
            out.append(Shard(MOD, 'set_order', 'set_order/%s/%d_%d' % (field, j, k),
                             {'FIELD': field, 'J': j, 'K': k, 'FROZEN': frozen},
                             300 if thorough else 90, group='set_order/' + field,
                             bounds='MySQL handshake whose set-valued field %s (a %s) holds members %d, %d and any third '
                                    'one, filled in two insertion orders: equal objects, identical JSON and Markdown' % (
                                        field, 'frozenset' if frozen else 'set', j, k)))
    for low in (range(0, 256, 16) if thorough else (0, 16 * rng.randrange(1, 8), 16 * rng.randrange(8, 16))):
        out.append(Shard(MOD, 'value_kinds', 'value_kinds/%d' % low, {'LO': low, 'HI': low + 16}, 300 if thorough else 60,
                         group='value_kinds',
                         bounds='a report object holding every kind of value (bytes, bytearray, int, float, bool, None, '
                                'non-ASCII text, nested list, tuple, library object, datetime, date, timedelta, IP '
                                'network, URL, enum members, empty containers) as attribute, list element, mapping value '
                                'and mapping key, content byte %d..%d symbolic: JSON closed, Markdown text' % (
                                    low, low + 15)))
    out.append(Shard(MOD, 'value_kinds_native', 'value_kinds_native', {}, kind='concrete',
                     bounds='the report object of value_kinds for every content byte, library objects as mapping keys '
                            'included, through the real json.dumps / json.loads (natively)'))
    out.append(Shard(MOD, 'set_orders_native', 'set_orders_native', {}, kind='concrete',
                     bounds='every ordered triple of MySQLCapability / MySQLStatusFlag members as the set-valued field '
                            '(natively, real json.dumps)'))
    out += ser
    out.append(Shard(MOD, 'enum_members', 'enum_members', {}, kind='concrete',
                     bounds='every member of every enum class of cryptoparser and cryptodatahub: json.dumps + json.loads '
                            'alone, inside a list and as a dict key, and the Markdown rendering (natively)'))
    out.append(Shard(MOD, 'orders_and_hash_seeds', 'orders_and_hash_seeds', {}, kind='concrete',
                     bounds='up to 2 accepted vectors of every seeded class, serialised (real json.dumps/json.loads, '
                            'as_markdown) in 3 orders under 4 PYTHONHASHSEED values in fresh interpreters, once as '
                            'is and twice with marking text encoders installed on every second Serializable class (even / odd)'))
    return out
