# -*- coding: utf-8 -*-
"""C07 - SSH banner, packets, key exchange messages, host keys and certificates follow the RFCs.
C16 - HASSH and host-key fingerprints equal their definitions over the wire bytes.

Oracle: symcheck/refs/ssh_ref.py.  S-key: inside cryptoparser.ssh.key the name `PublicKey` is bound to a
container subclass that keeps the parameter object it is built from (cryptodatahub/asn1crypto DER
handling is third-party and outside the claim); a native side condition compares the container with
the real PublicKey on concrete keys.  S-hash: hashlib.md5 / hash_bytes are recording stubs; the
digests themselves are uninterpreted by design.
"""
import base64
import binascii

from symcheck import api
from symcheck.api import parse_errors, reach
from symcheck.refs import ssh_ref as ref
from symcheck.runner import Shard

MOD = __name__
P = {}
PARSE_ERRORS = parse_errors()

KNOWN = {
    'kex': [b'curve25519-sha256', b'diffie-hellman-group14-sha256', b'ecdh-sha2-nistp256'],
    'hostkey': [b'ssh-ed25519', b'rsa-sha2-512', b'ssh-rsa'],
    'enc': [b'aes128-ctr', b'chacha20-poly1305@openssh.com', b'aes256-gcm@openssh.com'],
    'mac': [b'hmac-sha2-256', b'umac-128@openssh.com', b'hmac-sha1'],
    'comp': [b'none', b'zlib@openssh.com', b'zlib'],
}
LIST_KINDS = ['kex', 'hostkey', 'enc', 'enc', 'mac', 'mac', 'comp', 'comp']
ATTRS = ['kex_algorithms', 'host_key_algorithms', 'encryption_algorithms_client_to_server',
         'encryption_algorithms_server_to_client', 'mac_algorithms_client_to_server', 'mac_algorithms_server_to_client',
         'compression_algorithms_client_to_server', 'compression_algorithms_server_to_client']
COOKIE = bytes(range(16))


# --- S-key ------------------------------------------------------------------------------------------------------------

def _install_key_stub():
    import cryptoparser.ssh.key as key_mod  # pylint: disable=import-outside-toplevel
    real = key_mod.PublicKey
    if getattr(real, '_symcheck_stub', False):
        return real

    class KeyContainer(real):   # passes isinstance(…, PublicKey) validators; keeps the params it was built from
        _symcheck_stub = True
        _real = real

        def __init__(self, params):     # pylint: disable=super-init-not-called
            object.__setattr__(self, '_params', params)

        @classmethod
        def from_params(cls, params):
            return cls(params)

        @property
        def params(self):
            return self._params

        def __eq__(self, other):
            return isinstance(other, KeyContainer) and api.deep_eq(self._params, other._params)

        @property
        def der(self):     # a deterministic encoding of the parameters (stands in for the DER of the real key)
            import attr as _attr  # pylint: disable=import-outside-toplevel
            return repr(_attr.astuple(self._params, recurse=False)).encode('ascii', 'replace')

        def _asdict(self):      # host_key_asdict() merges the key's own dictionary: nothing to add for the container
            return {}

        def __hash__(self):
            return 0

    key_mod.PublicKey = KeyContainer
    return KeyContainer


def _uninstall_key_stub():
    import cryptoparser.ssh.key as key_mod  # pylint: disable=import-outside-toplevel
    if getattr(key_mod.PublicKey, '_symcheck_stub', False):
        key_mod.PublicKey = key_mod.PublicKey._real  # pylint: disable=protected-access


def key_stub_conformance():
    """concrete: the container agrees with the real PublicKey on the parameters of concrete keys of every type"""
    import random  # pylint: disable=import-outside-toplevel
    from cryptoparser.ssh import key  # pylint: disable=import-outside-toplevel
    problems = []
    rng = random.Random(7)
    for _ in range(50):
        exponent, modulus = rng.choice([3, 65537, rng.randrange(3, 2 ** 24)]), rng.randrange(2 ** 30, 2 ** 64)
        blob = ref.key_rsa(exponent, modulus)
        real = key.SshHostKeyRSA.parse_exact_size(blob)
        _install_key_stub()
        try:
            stub = key.SshHostKeyRSA.parse_exact_size(blob)
        finally:
            _uninstall_key_stub()
        if (real.public_key.params.public_exponent, real.public_key.params.modulus) != (
                stub.public_key.params.public_exponent, stub.public_key.params.modulus):
            problems.append('RSA parameters differ between real PublicKey and container')
        if bytes(real.compose()) != blob or bytes(stub.compose()) != blob:
            problems.append('RSA blob e=%d n=%d does not compose back' % (exponent, modulus))
        data = bytes(rng.randrange(256) for _ in range(32))
        blob = ref.key_ed25519(data)
        real = key.SshHostKeyEDDSA.parse_exact_size(blob)
        if bytes(real.public_key.params.key_data) != data or bytes(real.compose()) != blob:
            problems.append('Ed25519 key does not survive the real PublicKey')
    return problems


# --- C07 ---------------------------------------------------------------------------------------------------------------

def padding(key: bytes) -> bool:
    """post: _"""
    from cryptoparser.ssh.record import SshRecordKexDH  # pylint: disable=import-outside-toplevel
    from cryptoparser.ssh.subprotocol import SshDHKeyExchangeInit  # pylint: disable=import-outside-toplevel
    length = len(key)
    if not P['LO'] <= length < P['HI']:
        return True
    record = SshRecordKexDH(SshDHKeyExchangeInit(key))
    composed = record.compose()
    total = len(composed)
    payload = 1 + 4 + length
    reach()
    pad = composed[4]
    packet_length = ((composed[0] * 256 + composed[1]) * 256 + composed[2]) * 256 + composed[3]
    return (total % 8 == 0 and 4 <= pad <= 255 and packet_length == 1 + payload + pad and total == 4 + packet_length)


def packet_layout(key: bytes) -> bool:
    """post: _"""
    from cryptoparser.ssh.record import SshRecordKexDH  # pylint: disable=import-outside-toplevel
    from cryptoparser.ssh.subprotocol import SshDHKeyExchangeInit  # pylint: disable=import-outside-toplevel
    if len(key) > P['B']:
        return True
    wire = ref.packet(ref.kexdh_init(key))
    built = SshRecordKexDH(SshDHKeyExchangeInit(key))
    if bytes(built.compose()) != wire:
        return False
    parsed = SshRecordKexDH.parse_exact_size(wire)
    reach()
    return bytes(parsed.packet.ephemeral_public_key) == key


def _name(index, extra):
    pool = KNOWN[P['KIND']]
    if index < len(pool):
        return pool[index]
    return extra       # unknown algorithm name


VECTORS = {'kex': 'SshKexAlgorithmVector', 'hostkey': 'SshHostKeyAlgorithmVector', 'enc': 'SshEncryptionAlgorithmVector',
           'mac': 'SshMacAlgorithmVector', 'comp': 'SshCompressionAlgorithmVector'}


def _texts(items):
    return [item.encode('ascii') if isinstance(item, str) else item.value.code.encode('ascii') for item in items]


def name_list(idx_a: int, idx_b: int, extra: bytes, count: int) -> bool:
    """post: _"""
    import cryptoparser.ssh.subprotocol as sp  # pylint: disable=import-outside-toplevel
    pool = KNOWN[P['KIND']]
    if not (0 <= idx_a <= len(pool) and 0 <= idx_b <= len(pool) and 0 <= count <= 2 and 1 <= len(extra) <= P['B']):
        return True
    for char in extra:
        if not (33 <= char < 127 and char != 44):
            return True
    if any([extra == item for item in pool]):  # pylint: disable=use-a-generator
        return True
    if idx_b != 0:
        return True       # one symbolic name per shard: position POS varies, the other name is fixed
    names = [pool[0], pool[1]][:count]
    if count > P['POS']:
        names[P['POS']] = _name(idx_a, extra)
    wire = ref.name_list(names)
    vector = getattr(sp, VECTORS[P['KIND']])
    try:
        parsed, consumed = vector.parse_immutable(wire + b'\x00')
    except PARSE_ERRORS:
        return False
    reach()
    if consumed != len(wire) or _texts(parsed) != names:
        return False
    return bytes(parsed.compose()) == wire


ALTERNATIVES = [[], [0], [1, 0], [2, 1, 0]]


def kexinit_fields(choice: int, follows: bool) -> bool:
    """post: _"""
    from cryptoparser.ssh.subprotocol import SshKeyExchangeInit  # pylint: disable=import-outside-toplevel
    if not 0 <= choice < len(ALTERNATIVES) ** 2:
        return True
    # field order: slot SLOT and the slot after it get different contents, every other list its own marker name
    lists = [[KNOWN[kind][(slot + 1) % 3]] for slot, kind in enumerate(LIST_KINDS)] + [[], []]
    first, second = ALTERNATIVES[choice % len(ALTERNATIVES)], ALTERNATIVES[choice // len(ALTERNATIVES)]
    slot = P['SLOT']
    lists[slot] = [KNOWN[LIST_KINDS[slot]][item] for item in first]
    lists[(slot + 1) % 8] = [KNOWN[LIST_KINDS[(slot + 1) % 8]][item] for item in second]
    wire = ref.kexinit(COOKIE, lists, follows, P['RESERVED'])
    try:
        parsed = SshKeyExchangeInit.parse_exact_size(wire)
    except PARSE_ERRORS:
        return False
    reach()
    for index, attr_name in enumerate(ATTRS):
        if _texts(getattr(parsed, attr_name)) != lists[index]:
            api.note('%s: %r' % (attr_name, _texts(getattr(parsed, attr_name))))
            return False
    if bool(parsed.first_kex_packet_follows) != follows or parsed.reserved != P['RESERVED']:
        return False
    if bytes(parsed.cookie) != COOKIE:
        return False
    return bytes(parsed.compose()) == wire


def messages(a: int, b: int, c: int, data: bytes) -> bool:
    """post: _"""
    from cryptoparser.ssh import subprotocol as sp  # pylint: disable=import-outside-toplevel
    if not (0 <= a < 2 ** 32 and 0 <= b < 2 ** 32 and 0 <= c < 2 ** 32 and len(data) <= P['B']):
        return True
    kind = P['KIND']
    if kind == 'gex_request':
        wire, built = ref.gex_request(a, b, c), sp.SshDHGroupExchangeRequest(a, b, c)
        check = lambda obj: (obj.gex_min, obj.gex_number, obj.gex_max) == (a, b, c)   # noqa: E731
    elif kind == 'unimplemented':
        wire, built = ref.unimplemented(a), sp.SshUnimplementedMessage(a)
        check = lambda obj: obj.sequence_number == a   # noqa: E731
    elif kind == 'kexdh_init':
        wire, built = ref.kexdh_init(data), sp.SshDHKeyExchangeInit(data)
        check = lambda obj: bytes(obj.ephemeral_public_key) == data   # noqa: E731
    elif kind == 'gex_init':
        wire, built = ref.gex_init(data), sp.SshDHGroupExchangeInit(data)
        check = lambda obj: bytes(obj.ephemeral_public_key) == data   # noqa: E731
    elif kind == 'gex_group':
        wire, built = ref.gex_group(data, b'\x02'), sp.SshDHGroupExchangeGroup(data, b'\x02')
        check = lambda obj: bytes(obj.p) == data and bytes(obj.g) == b'\x02'   # noqa: E731
    elif kind == 'disconnect':
        if not any([a == int(code) for code in sp.SshReasonCode]):  # pylint: disable=use-a-generator
            return True
        for char in data:
            if not 32 <= char < 127:
                return True
        wire = ref.disconnect(a, data, b'en')
        built = sp.SshDisconnectMessage(sp.SshReasonCode(a), data.decode('ascii'), 'en')
        check = lambda obj: int(obj.reason) == a and obj.description == data.decode('ascii') and obj.language == 'en'   # noqa: E731
    else:
        raise NotImplementedError(kind)
    if bytes(built.compose()) != wire:
        api.note('compose %r reference %r' % (bytes(built.compose()), wire))
        return False
    parsed = type(built).parse_exact_size(wire)
    reach()
    return bool(check(parsed)) and bytes(parsed.compose()) == wire


def host_key(a: int, b: int, data: bytes) -> bool:
    """post: _"""
    from cryptoparser.ssh import key  # pylint: disable=import-outside-toplevel
    kind = P['KIND']
    _install_key_stub()
    try:
        if kind == 'rsa':
            if not (1 <= a < 2 ** P['EBITS'] and 1 <= b < 2 ** P['NBITS']) or data != b'':     # key parameters are positive
                return True
            wire, cls = ref.key_rsa(a, b), key.SshHostKeyRSA
            check = lambda obj: (obj.public_key.params.public_exponent, obj.public_key.params.modulus) == (a, b)   # noqa: E731
        elif kind == 'dss':
            if not (1 <= a < 2 ** 24 and 1 <= b < 2 ** 24) or data != b'':
                return True
            values = {'p': 0x00c1, 'q': 0x83, 'g': 5, 'y': 7}
            values[P['SLOT'][0]], values[P['SLOT'][1]] = a, b
            wire, cls = ref.key_dss(values['p'], values['q'], values['g'], values['y']), key.SshHostKeyDSS
            check = lambda obj: (obj.public_key.params.prime, obj.public_key.params.order,   # noqa: E731
                                 obj.public_key.params.generator, obj.public_key.params.public_key_value) == (
                                     values['p'], values['q'], values['g'], values['y'])
        elif kind == 'ed25519':
            if a != 0 or b != 0 or len(data) > 2:
                return True
            full = data + bytes(range(32 - len(data)))
            wire, cls = ref.key_ed25519(full), key.SshHostKeyEDDSA
            check = lambda obj: bytes(obj.public_key.params.key_data) == full   # noqa: E731
        else:
            raise NotImplementedError(kind)
        try:
            parsed = cls.parse_exact_size(wire)
        except PARSE_ERRORS:
            return False
        reach()
        if not check(parsed):
            return False
        if bytes(parsed.compose()) != wire or bytes(parsed.key_bytes) != wire:
            return False
        return _fingerprint_ok(parsed, wire)
    finally:
        _uninstall_key_stub()


import datetime as _real_datetime


class _Instant(_real_datetime.datetime):
    """S-dt: an instant as integer microseconds since the epoch; passes instance_of(datetime) validators"""

    def __new__(cls, micro):
        obj = _real_datetime.datetime.__new__(cls, 1970, 1, 1)
        obj.micro = micro
        return obj

    @classmethod
    def fromtimestamp(cls, secs, tz=None):   # pylint: disable=arguments-differ
        if tz is None:
            raise ValueError('local time requested')
        return cls(secs * 1000000)

    def __add__(self, delta):
        return _Instant(self.micro + delta.micro)


class _Delta(object):  # pylint: disable=too-few-public-methods
    def __init__(self, days=0, seconds=0, microseconds=0, milliseconds=0):
        self.micro = ((days * 86400 + seconds) * 1000 + milliseconds) * 1000 + microseconds


class _ShimDatetime(object):  # pylint: disable=too-few-public-methods
    datetime = _Instant
    timedelta = _Delta


def certificate(serial: int, number: int, text: bytes, data: bytes) -> bool:
    """post: _"""
    from cryptoparser.ssh import key  # pylint: disable=import-outside-toplevel
    dim = P['DIM']
    if not (0 <= serial < 2 ** 64 and 0 <= number < 2 ** 32 and len(text) <= 2 and len(data) <= 2):
        return True
    for char in text:
        if not 33 <= char < 127:
            return True
    cert_type, after, before = 2, 1000000000, 2 ** 64 - 1
    key_id, principals, nonce = b'host', [b'a.example'], b'\x01\x02'
    if dim == 'serial':
        if number != 0 or text != b'' or data != b'' or serial >= 2 ** 16:
            return True
        # 64-bit serial: the symbolic 16 bits sit in the low two bytes or, shifted, in the top two
        serial = serial * 2 ** 48 + 0x0000030405060708 if P.get('HIGH') else 0x0102030405060000 + serial
    else:
        if serial != 7:
            return True
    if dim == 'type':
        if text != b'' or data != b'' or not 1 <= number <= 2:
            return True
        cert_type = number
    elif dim == 'validity':
        if text != b'' or data != b'':
            return True
        after, before = number, 2 ** 32 - 1 - number % 2
    elif dim == 'strings':
        if number != 0 or data != b'':
            return True
        key_id, principals = text, ([text + b'.example', b'b'] if text else [])
    elif dim == 'opaque':
        if number != 0 or text != b'':
            return True
        nonce = data
    elif dim != 'serial':
        raise NotImplementedError(dim)
    # deliberately not in lexical order: the blob keeps the order the CA wrote
    critical = [(b'source-address', ref.string(b'10.0.0.0/8')), (b'force-command', ref.string(b'/bin/true'))][:P['NCRIT']]
    extensions = [(b'zz-unknown@example', data), (b'permit-pty', b''), (b'permit-X11-forwarding', b'')][:P['NEXT']]
    pub = bytes(range(32))
    signer = ref.key_ed25519(bytes(range(32, 64)))
    sig = ref.signature(b'ssh-ed25519', bytes(64))
    wire = ref.cert_v01_ed25519(nonce, pub, serial, cert_type, key_id, principals, after, before, critical, extensions,
                                b'', signer, sig)
    _install_key_stub()
    shim = dim == 'validity' and P.get('SHIM', True)
    if shim:
        # S-dt (see c11_prims): datetime.fromtimestamp realises a symbolic value; instants become integer microseconds
        import cryptoparser.common.parse as parse_mod  # pylint: disable=import-outside-toplevel
        parse_mod.datetime = _ShimDatetime
    try:
        try:
            cert = key.SshHostCertificateV01EDDSA.parse_exact_size(wire)
        except PARSE_ERRORS:
            return False
        finally:
            if shim:
                import datetime as real_datetime  # pylint: disable=import-outside-toplevel
                parse_mod.datetime = real_datetime
        reach()
        if cert.serial != serial or cert.certificate_type.value.code != cert_type:
            return False
        if cert.key_id.encode('ascii') != key_id or [item.value.encode('ascii') for item in cert.valid_principals] != principals:
            return False
        if bytes(cert.nonce) != nonce or bytes(cert.public_key.params.key_data) != pub:
            return False
        if len(cert.critical_options) != len(critical) or len(cert.extensions) != len(extensions):
            return False
        if bytes(cert.signature_key.compose()) != signer or bytes(cert.signature.compose()) != sig:
            return False
        if dim == 'validity':
            if cert.valid_after is None:
                return False
            if shim:
                # composing needs real datetimes: the P-direction fields are decided here, the compose side natively
                return cert.valid_after.micro == after * 1000000 and cert.valid_before.micro == before * 1000000
            import calendar  # pylint: disable=import-outside-toplevel
            if calendar.timegm(cert.valid_after.utctimetuple()) != after:
                return False
        if bytes(cert.compose()) != wire or bytes(cert.key_bytes) != wire:
            api.note('certificate composes to %s' % bytes(cert.compose()).hex())
            return False
        return _fingerprint_ok(cert, wire)
    finally:
        _uninstall_key_stub()


def banner(text: bytes) -> bool:
    """post: _"""
    from cryptoparser.ssh.subprotocol import SshProtocolMessage  # pylint: disable=import-outside-toplevel
    if not 1 <= len(text) <= P['B']:
        return True
    for char in text:
        if not (48 <= char <= 57 or 65 <= char <= 90 or 97 <= char <= 122 or char in (46, 95)):
            return True
    comment = P['COMMENT'].encode('ascii') if P['COMMENT'] is not None else None
    software = b'srv_' + text if P['WHERE'] == 'software' else b'srv_1'
    if P['WHERE'] == 'comment':
        comment = comment + text
    wire = ref.banner(b'2.0', software, comment)
    try:
        parsed = SshProtocolMessage.parse_exact_size(wire)
    except PARSE_ERRORS:
        return False
    reach()
    if (int(parsed.protocol_version.major), parsed.protocol_version.minor) != (2, 0):
        return False
    if bytes(parsed.software_version.compose()) != software:
        return False
    if (parsed.comment.encode('ascii') if parsed.comment is not None else None) != comment:
        return False
    return bytes(parsed.compose()) == wire


def banner_lengths():
    """concrete: identification strings up to the RFC 4253 maximum of 255 bytes are conformant and must be accepted"""
    from cryptoparser.ssh.subprotocol import SshProtocolMessage  # pylint: disable=import-outside-toplevel
    problems = []
    for total in (200, 253, 254, 255):
        for comment in (None, b'c'):
            software = b'x' * (total - 8 - 2 - (2 if comment else 0))
            wire = ref.banner(b'2.0', software, comment)
            try:
                parsed = SshProtocolMessage.parse_exact_size(wire)
            except Exception as exc:  # pylint: disable=broad-except
                problems.append('conformant banner of %d bytes rejected: %s' % (len(wire), type(exc).__name__))
                continue
            if bytes(parsed.compose()) != wire:
                problems.append('banner of %d bytes does not compose back' % len(wire))
    return problems


# --- C16 ---------------------------------------------------------------------------------------------------------------

RECORDED = []


class _FakeDigest(object):
    def __init__(self, name):
        self.name, self.data = name, b''

    def update(self, data):
        self.data += bytes(data)

    def digest(self):
        RECORDED.append((self.name, self.data))
        return P.get('DIGEST', b'\x01\x23\x45\x67\x89\xab\xcd\xef\xfe\xdc\xba\x98\x76\x54\x32\x10')


def _fingerprint_ok(obj, blob):
    """S-hash: key fingerprints hash exactly the blob and render the (arbitrary) digest as defined"""
    import cryptoparser.ssh.key as key_mod  # pylint: disable=import-outside-toplevel
    if not P.get('FINGERPRINTS'):
        return True
    digest = bytes(P['DIGEST'])
    hashed = []

    def fake_hash_bytes(hash_type, data):
        hashed.append((hash_type.name, bytes(data)))
        return digest

    stock = key_mod.hash_bytes
    key_mod.hash_bytes = fake_hash_bytes
    try:
        prints = obj.fingerprints
        # base64 of a symbolic blob is realised value by value by the engine: known_hosts is decided on concrete blobs
        known_hosts = obj.host_key_asdict()['known_hosts'] if P.get('KNOWN_HOSTS') else None
    finally:
        key_mod.hash_bytes = stock
    if [item[1] for item in hashed[:3]] != [blob, blob, blob]:
        return False
    b64 = base64.b64encode(digest).decode('ascii')
    hexed = binascii.hexlify(digest).decode('ascii')
    expected = ['SHA256:' + b64, 'SHA1:' + b64, 'MD5:' + ':'.join(hexed[idx:idx + 2] for idx in range(0, len(hexed), 2))]
    if list(prints.values()) != expected:
        api.note('fingerprints %r' % (list(prints.values()),))
        return False
    return known_hosts is None or known_hosts == base64.b64encode(blob).decode('ascii')


def fingerprint_rendering(byte_a: int, byte_b: int) -> bool:
    """post: _"""
    from cryptoparser.ssh import key  # pylint: disable=import-outside-toplevel
    if not (P['LO'] <= byte_a < P['HI'] and byte_b == 0):
        return True
    digest = bytearray(P['BASE'])
    digest[P['POS']] = byte_a
    P['DIGEST'] = bytes(digest)
    P['FINGERPRINTS'] = True
    P['KNOWN_HOSTS'] = True
    blob = ref.key_ed25519(bytes(range(32)))
    _install_key_stub()
    try:
        parsed = key.SshHostKeyEDDSA.parse_exact_size(blob)
        reach()
        return _fingerprint_ok(parsed, blob)
    finally:
        _uninstall_key_stub()


def _member(kind, name):
    import cryptoparser.ssh.subprotocol as sp  # pylint: disable=import-outside-toplevel
    enums = {'kex': sp.SshKexAlgorithm, 'hostkey': sp.SshHostKeyAlgorithm, 'enc': sp.SshEncryptionAlgorithm,
             'mac': sp.SshMacAlgorithm, 'comp': sp.SshCompressionAlgorithm}
    return enums[kind].from_code(name.decode('ascii'))


def hassh(idx: int, extra: str, count: int) -> bool:
    """post: _"""
    # the message is built through the constructor (names as the parser delivers them: members for known names,
    # plain str for unknown ones); C07 decides that parsing delivers exactly the wire names in wire order
    import cryptoparser.ssh.subprotocol as sp  # pylint: disable=import-outside-toplevel
    pool = KNOWN[P['KIND']]
    if not (0 <= idx <= len(pool) and 0 <= count <= 2 and 1 <= len(extra) <= P['B']):
        return True
    for char in extra:
        if not (33 <= ord(char) < 127 and char not in ',;'):
            return True
    raw = extra.encode('ascii')
    if any([raw == item for item in pool]):  # pylint: disable=use-a-generator
        return True
    lists = [[KNOWN[kind][1], KNOWN[kind][0]] for kind in LIST_KINDS]
    items = [[_member(kind, name) for name in lists[slot]] for slot, kind in enumerate(LIST_KINDS)]
    for slot in P['SLOTS']:
        kind = LIST_KINDS[slot]
        chosen = pool[idx] if idx < len(pool) else None
        names = [chosen if chosen is not None else raw, pool[0]][:count]
        lists[slot] = names
        items[slot] = [(_member(kind, name) if name is not raw else extra) for name in names]
    message = sp.SshKeyExchangeInit(*items, cookie=bytes(range(16)))     # (the default cookie is random)

    class _Hashlib(object):  # pylint: disable=too-few-public-methods
        @staticmethod
        def md5():
            return _FakeDigest('md5')

    del RECORDED[:]
    stock = sp.hashlib
    sp.hashlib = _Hashlib
    try:
        client, server = message.hassh, message.hassh_server
    finally:
        sp.hashlib = stock
    reach()
    expected_client = ref.hassh_text(lists[0], lists[2], lists[4], lists[6])
    expected_server = ref.hassh_text(lists[0], lists[3], lists[5], lists[7])
    if [item[1] for item in RECORDED] != [expected_client, expected_server]:
        api.note('hashed %r' % (RECORDED,))
        return False
    rendering = binascii.hexlify(bytes(P.get('DIGEST', b'\x01\x23\x45\x67\x89\xab\xcd\xef\xfe\xdc\xba\x98\x76\x54\x32\x10')))
    return client == rendering.decode('ascii') and server == client


def replay_certificate(serial, number, text, data):
    P['SHIM'] = False
    return certificate(serial, number, text, data)


def rendering_table():
    """concrete: rendering of every single-byte variation of a digest"""
    from cryptoparser.ssh import key  # pylint: disable=import-outside-toplevel
    problems = []
    blob = ref.key_ed25519(bytes(range(32)))
    parsed = key.SshHostKeyEDDSA.parse_exact_size(blob)
    import cryptoparser.ssh.key as key_mod  # pylint: disable=import-outside-toplevel
    stock = key_mod.hash_bytes
    try:
        for pos in range(32):
            for value in range(256):
                digest = bytearray(range(1, 33))
                digest[pos] = value
                digest = bytes(digest)
                key_mod.hash_bytes = lambda hash_type, data, digest=digest: digest
                prints = list(parsed.fingerprints.values())
                b64 = base64.b64encode(digest).decode('ascii')
                expected = ['SHA256:' + b64, 'SHA1:' + b64, 'MD5:' + ':'.join('%02x' % item for item in digest)]
                if prints != expected:
                    problems.append('digest byte %d = %d renders as %r' % (pos, value, prints))
                    break
    finally:
        key_mod.hash_bytes = stock
    return problems


def real_digests():
    """concrete: ties the stubs to reality - real hashlib on concrete inputs"""
    import hashlib  # pylint: disable=import-outside-toplevel
    from cryptoparser.ssh import key  # pylint: disable=import-outside-toplevel
    from cryptoparser.ssh.subprotocol import SshKeyExchangeInit  # pylint: disable=import-outside-toplevel
    problems = []
    lists = [[KNOWN[kind][1], b'unknown-alg@example', KNOWN[kind][0]] for kind in LIST_KINDS] + [[], []]
    lists[6] = []
    wire = ref.kexinit(COOKIE, lists, False, 0)
    message = SshKeyExchangeInit.parse_exact_size(wire)
    if message.hassh != hashlib.md5(ref.hassh_text(lists[0], lists[2], lists[4], lists[6])).hexdigest():
        problems.append('HASSH differs from md5 of the joined name-lists (with an unknown name and an empty list)')
    if message.hassh_server != hashlib.md5(ref.hassh_text(lists[0], lists[3], lists[5], lists[7])).hexdigest():
        problems.append('HASSH server differs from md5 of the joined name-lists')
    for blob, cls in ((ref.key_ed25519(bytes(range(32))), key.SshHostKeyEDDSA), (ref.key_rsa(65537, 2 ** 63 + 11),
                                                                                 key.SshHostKeyRSA)):
        parsed = cls.parse_exact_size(blob)
        prints = list(parsed.fingerprints.values())
        expected = ['SHA256:' + base64.b64encode(hashlib.sha256(blob).digest()).decode(),
                    'SHA1:' + base64.b64encode(hashlib.sha1(blob).digest()).decode(),
                    'MD5:' + ':'.join('%02x' % item for item in hashlib.md5(blob).digest())]
        if prints != expected:
            problems.append('%s fingerprints %r, expected %r' % (cls.__name__, prints, expected))
    return problems


def sample_args(rng, kwargs):
    out = {}
    for name in kwargs:
        if name in ('idx', 'idx_a', 'idx_b'):
            out[name] = rng.randrange(0, 4)
        elif name == 'count':
            out[name] = rng.randrange(0, 3)
        elif name == 'extra' and kwargs[name].__class__ is str:
            out[name] = ''.join(rng.choice('abz19') for _ in range(rng.randrange(1, 2)))
        elif name in ('extra', 'text'):
            out[name] = bytes(rng.choice(b'abz19') for _ in range(rng.randrange(1, 2)))
        elif name == 'choice':
            out[name] = rng.randrange(0, 16)
        elif name in ('data', 'key', 'comment'):
            out[name] = bytes(rng.choice(b'ab') for _ in range(rng.randrange(0, 2)))
        elif name == 'key' and 'LO' in P:
            out[name] = bytes(P['LO'] + rng.randrange(0, 200))
        elif name in ('a', 'b', 'c', 'serial', 'number'):
            out[name] = rng.choice([0, 1, 2, 7, 65537, rng.randrange(0, 2 ** 16)])
        elif name == 'byte_a':
            out[name] = P.get('LO', 0) + rng.randrange(32)
        elif name == 'byte_b':
            out[name] = 0
    if P.get('DIM') == 'serial':
        out.update(number=0, text=b'', data=b'', serial=rng.randrange(0, 65536))
    elif P.get('DIM') in ('type', 'validity', 'strings', 'opaque'):
        out['serial'] = 7
        if P['DIM'] in ('type', 'validity'):
            out.update(text=b'', data=b'')
            if P['DIM'] == 'type':
                out['number'] = rng.randrange(1, 3)
        elif P['DIM'] == 'strings':
            out.update(number=0, data=b'')
        else:
            out.update(number=0, text=b'')
    if 'key' in kwargs and 'LO' in P:
        out['key'] = bytes(P['LO'] + rng.randrange(0, 200))
    if P.get('KIND') in ('rsa', 'dss'):
        out['data'] = b''
    if P.get('KIND') == 'ed25519':
        out.update(a=0, b=0)
    return out


def shards_c07(tier, seed):  # pylint: disable=unused-argument
    thorough = tier == 'thorough'
    out = []
    for low in range(0, 35000, 5000):
        out.append(Shard(MOD, 'padding', 'padding/%d' % low, {'LO': low, 'HI': low + 5000 if low < 30000 else 35001}, 300,
                         bounds='every payload length %d..%d (symbolic key bytes): total %% 8 == 0, 4 <= padding <= 255, '
                                'packet_length counts padding-length byte, payload and padding' % (
                                    low + 5, min(low + 5000, 35001) + 4)))
    out.append(Shard(MOD, 'packet_layout', 'packet_layout', {'B': 4}, 200,
                     bounds='binary packet around KEXDH_INIT with <= 4 symbolic key bytes vs the reference'))
    for kind in VECTORS:
        for pos in ((0, 1) if thorough else (1,)):
            out.append(Shard(MOD, 'name_list', 'name_list/%s/%d' % (kind, pos),
                             {'KIND': kind, 'B': 1, 'POS': pos}, 1500 if thorough else 400,
                             bounds='%s name-list of 0..2 names, the one at position %d known (3 choices) or unknown '
                                    '(%d symbolic character): order and unknown names preserved, uint32 prefix' % (
                                        kind, pos, 1)))
    for slot in range(8):
        if not thorough and slot % 2:
            continue
        out.append(Shard(MOD, 'kexinit_fields', 'kexinit/slot%d' % slot,
                         {'SLOT': slot, 'RESERVED': 0 if slot % 4 else 0x01020304}, 600,
                         bounds='KEXINIT field order: lists %d and %d each over {[], 1, 2, 3 names}, every other list '
                                'distinct, first_kex_packet_follows symbolic' % (slot, (slot + 1) % 8)))
    for kind in ('gex_request', 'unimplemented', 'kexdh_init', 'gex_init', 'gex_group', 'disconnect'):
        out.append(Shard(MOD, 'messages', 'message/' + kind, {'KIND': kind, 'B': 3}, 300,
                         bounds='%s: 32-bit fields full width, strings <= 3 symbolic bytes' % kind))
    ebits, nbits = (24, 64) if thorough else (17, 32)
    out.append(Shard(MOD, 'host_key', 'host_key/rsa', {'KIND': 'rsa', 'EBITS': ebits, 'NBITS': nbits},
                     1800 if thorough else 300, bounds='ssh-rsa blob: e < 2^%d, n < 2^%d (S-key)' % (ebits, nbits)))
    for slot in (('p', 'q'), ('g', 'y')):
        out.append(Shard(MOD, 'host_key', 'host_key/dss-%s%s' % slot, {'KIND': 'dss', 'SLOT': list(slot)}, 400,
                         bounds='ssh-dss blob: %s and %s < 2^24 symbolic, the other two fixed (S-key)' % slot))
    out.append(Shard(MOD, 'host_key', 'host_key/ed25519', {'KIND': 'ed25519'}, 200,
                     bounds='ssh-ed25519 blob: first two key bytes symbolic (S-key)'))
    for dim in ('serial', 'serial-high', 'type', 'validity', 'strings', 'opaque'):
        for ncrit, next_ in ((0, 0), (2, 3)):
            if not thorough and dim in ('type', 'opaque', 'serial-high') and ncrit:
                continue
            par = {'DIM': dim.split('-')[0], 'NCRIT': ncrit, 'NEXT': next_, 'HIGH': dim.endswith('high')}
            out.append(Shard(MOD, 'certificate', 'certificate/%s/%d-%d' % (dim, ncrit, next_), par, 600,
                             bounds='ssh-ed25519-cert-v01: %s symbolic (serial: two bytes of the 64, validity 32 bit, '
                                    'strings <= 2 characters), %d critical options, %d extensions' % (dim, ncrit, next_)))
    for where, comment in (('software', None), ('software', 'c'), ('comment', 'c')):
        out.append(Shard(MOD, 'banner', 'banner/%s-%s' % (where, comment), {'B': 2 if thorough else 1, 'WHERE': where,
                                                                           'COMMENT': comment},
                         900 if thorough else 300,
                         bounds='identification string with %d symbolic character(s) in the %s; comment %r' % (
                             2 if thorough else 1, where, comment)))
    out.append(Shard(MOD, 'banner_lengths', 'banner/lengths', {}, kind='concrete',
                     bounds='identification strings of 200, 253, 254, 255 bytes with and without comment (natively)'))
    out.append(Shard(MOD, 'key_stub_conformance', 'key_stub_conformance', {}, kind='concrete',
                     bounds='S-key container vs real PublicKey on 50 concrete RSA and Ed25519 keys'))
    return out


def shards_c16(tier, seed):  # pylint: disable=unused-argument
    thorough = tier == 'thorough'
    out = []
    # which name-lists share the symbolic name: every hashed list alone, and the client/server pairs together
    for kind, slots in (('kex', [0]), ('enc', [2]), ('enc', [3]), ('mac', [4]), ('mac', [5]), ('comp', [6]),
                        ('comp', [7]), ('enc', [2, 3]), ('mac', [4, 5])):
        out.append(Shard(MOD, 'hassh', 'hassh/%s-%s' % (kind, ''.join(str(item) for item in slots)),
                         {'KIND': kind, 'SLOTS': slots, 'B': 2 if thorough else 1}, 900 if thorough else 300,
                         bounds='KEXINIT with name-list(s) %s = [] / [x] / [x, known], x known (3 choices) or unknown '
                                '(%d symbolic characters): what is fed to MD5 == joined wire names, both directions' % (
                                    slots, 2 if thorough else 1)))
    base = bytes(range(1, 33))
    for pos in range(0, 32, 5) if thorough else (0, 15, 31):
        lows = range(0, 256, 32) if thorough else ((pos * 8) % 256 // 32 * 32,)
        for low in lows:
            out.append(Shard(MOD, 'fingerprint_rendering', 'fingerprint/render/%d-%02x' % (pos, low),
                             {'BASE': list(base), 'POS': pos, 'LO': low, 'HI': low + 32}, 400,
                             bounds='digest byte %d in %d..%d symbolic: SHA256/SHA1 base64 and MD5 colon-hex rendering, '
                                    'known_hosts base64' % (pos, low, low + 31)))
    out.append(Shard(MOD, 'rendering_table', 'fingerprint/render_table', {}, kind='concrete',
                     bounds='every (position, value) of a 32-byte digest: rendering vs reference, enumerated natively'))
    digest = list(bytes(range(16, 48)))
    out.append(Shard(MOD, 'host_key', 'fingerprint/rsa', {'KIND': 'rsa', 'EBITS': 24, 'NBITS': 32, 'FINGERPRINTS': True,
                                                         'DIGEST': digest}, 400,
                     bounds='ssh-rsa blob (e < 2^24, n < 2^32): the three digests are taken over exactly the RFC 4253 '
                            'blob of the reference'))
    out.append(Shard(MOD, 'host_key', 'fingerprint/ed25519', {'KIND': 'ed25519', 'FINGERPRINTS': True, 'DIGEST': digest},
                     300, bounds='ssh-ed25519 blob, two symbolic key bytes: digests over the reference blob'))
    out.append(Shard(MOD, 'host_key', 'fingerprint/dss', {'KIND': 'dss', 'SLOT': ['p', 'y'], 'FINGERPRINTS': True,
                                                         'DIGEST': digest}, 400,
                     bounds='ssh-dss blob, p and y < 2^24 symbolic: digests over the reference blob'))
    for ncrit, next_ in ((0, 0), (2, 3)):
        out.append(Shard(MOD, 'certificate', 'fingerprint/certificate/%d-%d' % (ncrit, next_),
                         {'DIM': 'serial', 'NCRIT': ncrit, 'NEXT': next_, 'FINGERPRINTS': True, 'DIGEST': digest}, 600,
                         bounds='v01 certificate with symbolic 64-bit serial, %d critical options, %d extensions: '
                                'digests and known_hosts over the reference blob' % (ncrit, next_)))
    out.append(Shard(MOD, 'real_digests', 'real_digests', {}, kind='concrete',
                     bounds='real hashlib on concrete KEXINIT / keys ties the recording stubs to reality'))
    return out
