# -*- coding: utf-8 -*-
"""C15 - JA3 of a client hello equals the published algorithm applied to its bytes.

Oracle: ref_ja3(wire) below walks the client hello bytes itself (no code of /repo).  S-str: inside
cryptoparser.tls.subprotocol `str` is replaced by a function that renders a *symbolic* int as an opaque
token; the two JA3 strings are split on ',' and '-' and compared item by item as integers (token ->
its symbolic int, decimal literal -> int).  Decimal rendering of concrete ints is untouched.
"""
from symcheck import api
from symcheck.api import parse_errors, reach
from symcheck.refs import tls_ref as ref
from symcheck.runner import Shard

MOD = __name__
P = {}
PARSE_ERRORS = parse_errors()

GREASE16 = [0x0a0a + 0x1010 * idx for idx in range(16)]
GREASE8 = [0x0b, 0x2a, 0x49, 0x68, 0x87, 0xa6, 0xc5, 0xe4]
RANDOM = bytes.fromhex('5b6cd580') + bytes(range(28))
TOKENS = []


def _is_grease16(code):
    return any([code == item for item in GREASE16])  # pylint: disable=use-a-generator


def ref_ja3(wire):
    """JA3 (salesforce/ja3): SSLVersion,Cipher,SSLExtension,EllipticCurve,EllipticCurvePointFormat as lists of ints,
    wire order, GREASE values ignored in every section.  Walks handshake(1) bytes; returns five lists of ints"""
    pos = 4
    version = wire[pos] * 256 + wire[pos + 1]
    pos += 2 + 32
    pos += 1 + wire[pos]
    suites_len = wire[pos] * 256 + wire[pos + 1]
    pos += 2
    suites = []
    for idx in range(pos, pos + suites_len, 2):
        code = wire[idx] * 256 + wire[idx + 1]
        if not _is_grease16(code):
            suites.append(code)
    pos += suites_len
    pos += 1 + wire[pos]
    extensions, groups, formats = [], [], []
    if pos < len(wire):
        end = pos + 2 + wire[pos] * 256 + wire[pos + 1]
        pos += 2
        while pos < end:
            ext_type = wire[pos] * 256 + wire[pos + 1]
            ext_len = wire[pos + 2] * 256 + wire[pos + 3]
            body = wire[pos + 4:pos + 4 + ext_len]
            if not _is_grease16(ext_type):
                extensions.append(ext_type)
            if ext_type == 10:
                for idx in range(2, len(body), 2):
                    code = body[idx] * 256 + body[idx + 1]
                    if not _is_grease16(code):
                        groups.append(code)
            elif ext_type == 11:
                for idx in range(1, len(body)):
                    formats.append(body[idx])
            pos += 4 + ext_len
    return [[version], suites, extensions, groups, formats]


def _install_str():
    import cryptoparser.tls.subprotocol as sp  # pylint: disable=import-outside-toplevel
    del TOKENS[:]

    def token_str(value=''):
        if type(value) is int or isinstance(value, (str, bytes)):   # pylint: disable=unidiomatic-typecheck
            return str(value)
        if isinstance(value, int) and type(value).__module__.startswith('crosshair'):
            TOKENS.append(value)
            return 'T%d' % (len(TOKENS) - 1)
        return str(value)

    sp.str = token_str


def _uninstall_str():
    import cryptoparser.tls.subprotocol as sp  # pylint: disable=import-outside-toplevel
    if 'str' in vars(sp):
        del sp.str


def _sections(text):
    sections = []
    for section in text.split(','):
        items = []
        for item in section.split('-'):
            if item == '':
                continue
            if item.startswith('T'):
                items.append(TOKENS[int(item[1:])])
            else:
                items.append(int(item))
        sections.append(items)
    return sections


def _same(left, right):
    if len(left) != len(right):
        return False
    for items_l, items_r in zip(left, right):
        if len(items_l) != len(items_r):
            return False
        for item_l, item_r in zip(items_l, items_r):
            if item_l != item_r:
                return False
    return True


def _hello(version, suites, extensions):
    return ref.client_hello(version, RANDOM, b'', suites, [0], extensions)


def _check(wire):
    from cryptoparser.tls.subprotocol import TlsHandshakeClientHello  # pylint: disable=import-outside-toplevel
    try:
        hello = TlsHandshakeClientHello.parse_exact_size(wire)
    except PARSE_ERRORS:
        return None
    _install_str()
    try:
        first = hello.ja3()
        got = _sections(first)
        second = None
        if P.get('AGAIN', True):
            again = TlsHandshakeClientHello.parse_exact_size(bytes(hello.compose()))
            second = _sections(again.ja3())
    finally:
        _uninstall_str()
    reach()
    expected = ref_ja3(wire)
    if not _same(got, expected):
        api.note('ja3 %r reference %r' % (first, expected))
        return False
    # a function of the message alone: unchanged by compose + parse (skipped where AGAIN is off: cost)
    return second is None or _same(second, expected)


BASE_EXT = [(10, ref.u16(6) + ref.u16(0x001d) + ref.u16(0x0017) + ref.u16(0x0018)), (11, bytes([2, 0, 1])),
            (0xff01, b'\x00')]


def ja3_version(code: int) -> bool:
    """post: _"""
    if not any([code == item for item in P['CODES']]):  # pylint: disable=use-a-generator
        return True
    return _check(_hello(code, [0x1301, 0xc02f], BASE_EXT)) is not False


def ja3_suite(code: int) -> bool:
    """post: _"""
    if not (P['LO'] <= code < P['HI'] and 0 <= code < 65536):
        return True
    suites = list(P['SUITES'])
    suites[P['POS']] = code
    extensions = BASE_EXT if P['EXT'] else None
    return _check(_hello(0x0303, suites, extensions)) is True


def ja3_extension_type(code: int) -> bool:
    """post: _"""
    # an extension of symbolic type with an empty body: types the library parses in detail are excluded here (an
    # empty body is not valid for them) and covered by the concrete list of ja3_known_extensions
    if not (P['LO'] <= code < P['HI'] and 0 <= code < 65536):
        return True
    if any([code == item for item in P['PARSED']]):  # pylint: disable=use-a-generator
        return True
    extensions = list(BASE_EXT)
    extensions.insert(P['POS'], (code, b''))
    return _check(_hello(0x0303, [0x1301], extensions)) is True


def ja3_group(code: int) -> bool:
    """post: _"""
    if not (P['LO'] <= code < P['HI'] and 0 <= code < 65536):
        return True
    codes = [0x001d, 0x0017]
    codes.insert(P['POS'], code)
    body = b''.join(ref.u16(item) for item in codes)
    extensions = [(10, ref.u16(len(body)) + body)] + ([(11, bytes([1, 0]))] if P['FORMATS'] else [])
    return _check(_hello(0x0303, [0x1301], extensions)) is True


def ja3_point_format(code: int) -> bool:
    """post: _"""
    if not 0 <= code < 256:
        return True
    formats = [0, code] if P['POS'] else [code, 0]
    extensions = [(11, bytes([len(formats)] + formats))] + ([BASE_EXT[0]] if P['GROUPS'] else [])
    return _check(_hello(0x0303, [0x1301], extensions)) is True


def ja3_after_history(code: int) -> bool:
    """post: _"""
    # one step of history with a symbolic integer: a hello carrying `code` in a one-byte list (psk modes) is parsed
    # first, then hello B carries the same integer as a two-byte extension type and as a group
    from cryptoparser.tls.subprotocol import TlsHandshakeClientHello  # pylint: disable=import-outside-toplevel
    if not (P['LO'] <= code < P['HI'] and 0 <= code < 256):
        return True
    if any([code == item for item in P['PARSED']]):  # pylint: disable=use-a-generator
        return True
    try:
        TlsHandshakeClientHello.parse_exact_size(_hello(0x0304, [0x1301], [(45, bytes([1, code]))]))
    except PARSE_ERRORS:
        pass
    body = ref.u16(code) + ref.u16(0x001d)
    return _check(_hello(0x0303, [0x1301], [(code, b''), (10, ref.u16(len(body)) + body), (0xff01, b'\x00')])) is True


def ja3_known_extensions():
    """concrete: hellos built from the suite's own extension vectors (every extension type the library parses in
    detail), with and without supported_groups / ec_point_formats, in several orders"""
    from symcheck.harness import registry  # pylint: disable=import-outside-toplevel
    from cryptoparser.tls.subprotocol import TlsHandshakeClientHello  # pylint: disable=import-outside-toplevel
    problems = []
    pool = []
    for cls, seeds in registry.seeded_classes():
        name = registry.class_name(cls)
        if name.startswith('cryptoparser.tls.extension.TlsExtension') and hasattr(cls, 'get_extension_type'):
            for data in seeds:
                if len(data) >= 4 and int.from_bytes(data[2:4], 'big') == len(data) - 4 and len(data) < 200:
                    pool.append((int.from_bytes(data[:2], 'big'), data[4:], cls.__name__))
    # vectors carrying a one-byte GREASE point format are the recorded finding of the point_format shards
    pool = [item for item in pool if not (item[0] == 11 and any(byte in GREASE8 for byte in item[1][1:]))]
    combos = [[item] for item in pool] + [pool[idx:idx + 3] for idx in range(0, max(len(pool) - 2, 1), 3)]
    combos += [[BASE_EXT[1]] + [item[:2] for item in pool[:2]], [BASE_EXT[0]], [BASE_EXT[1]], []]
    for combo in combos:
        extensions = [(item[0], item[1]) for item in combo]
        if len({item[0] for item in extensions}) != len(extensions):
            continue        # the same extension twice is not a conformant hello
        wire = _hello(0x0303, [0x1301, 0x0a0a, 0xc02f], extensions)
        try:
            hello = TlsHandshakeClientHello.parse_exact_size(wire)
        except Exception:  # pylint: disable=broad-except
            continue        # the client-side extension list does not accept this vector (server-only extension)
        expected = ref_ja3(wire)
        got = [[int(item) for item in section.split('-') if item] for section in hello.ja3().split(',')]
        # the GREASE cipher suite is a recorded finding of the suite dimension: compare the other four sections
        if got[0] != expected[0] or got[2:] != expected[2:]:
            problems.append('extensions %s: ja3 %s, reference %s' % ([item[0] for item in extensions], hello.ja3(),
                                                                    expected))
    return problems


def ja3_history():
    """concrete: "a function of the message alone" against parse histories.  Hello B is fingerprinted after hellos
    that carry the same small integer in another code space (one-byte lists: psk modes, point formats; two-byte
    lists: suites, groups, extension types) have been parsed in the same process, and must still equal the
    history-free reference (suites that are recorded findings - SCSV, GREASE - are left out of B).  A verdict memoised per bare integer, per class or per process shows here"""
    from cryptoparser.tls.subprotocol import TlsHandshakeClientHello  # pylint: disable=import-outside-toplevel
    from symcheck.harness import registry  # pylint: disable=import-outside-toplevel
    parsed_types = set()
    for cls in registry.leaf_parsable_classes():
        if registry.class_name(cls).startswith('cryptoparser.tls.extension.TlsExtension') and hasattr(
                cls, 'get_extension_type'):
            try:
                parsed_types.add(cls.get_extension_type().value.code)
            except Exception:  # pylint: disable=broad-except
                pass
    problems = []

    def fingerprint(wire):
        try:
            hello = TlsHandshakeClientHello.parse_exact_size(wire)
            return [[int(item) for item in section.split('-') if item] for section in hello.ja3().split(',')]
        except PARSE_ERRORS:
            return None

    def expect(wire, history):
        got = fingerprint(wire)
        if got is not None and got != ref_ja3(wire) and len(problems) < 8:
            problems.append('after %s: ja3 %r, reference %r' % (history, got, ref_ja3(wire)))

    def types_of(*codes):
        return [(code, b'') for code in codes if code not in parsed_types and code != 0xff01]

    for val in range(256):
        wide = [val, val << 8 | val, val << 8, 0x0a0a, (val & 0xf0) << 8 | 0x0a00 | (val & 0xf0) | 0x0a]
        wide = sorted(set(wide))
        # (1) one-byte lists first, then the same integers as two-byte extension types / groups / suites
        if val not in GREASE8:
            fingerprint(_hello(0x0304, [0x1301], [(45, bytes([1, val])), (11, bytes([1, val]))]))
        else:
            fingerprint(_hello(0x0304, [0x1301], [(45, bytes([1, val]))]))
        body = b''.join(ref.u16(code) for code in wide)
        target = _hello(0x0303, [0x1301] + [code for code in wide if not _is_grease16(code) and code not in (0x00ff, 0x5600)],
                        types_of(*wide) + [(10, ref.u16(len(body)) + body), (0xff01, b'\x00')])
        expect(target, 'a hello with psk mode / point format %#04x' % val)
        # (2) the two-byte spaces among themselves: a code seen as suite, then as extension type and group
        expect(target, 'the same hello parsed before')
        # (3) two-byte first, one-byte afterwards (point formats; one-byte GREASE values are the recorded finding)
        if val not in GREASE8:
            expect(_hello(0x0303, [0x1301], [(11, bytes([2, val, 0])), (45, bytes([1, val]))]),
                   'hellos with extension type / group / suite %#06x' % val)
    return problems


def sample_args(rng, kwargs):
    if P.get('CODES'):
        return {'code': rng.choice(P['CODES'])}
    return {'code': P.get('LO', 0) + rng.randrange(0, max(1, min(P.get('HI', 256), 65536) - P.get('LO', 0)))}


def shards(tier, seed):  # pylint: disable=unused-argument,too-many-locals
    from cryptodatahub.tls.version import TlsVersion  # pylint: disable=import-outside-toplevel
    from symcheck.harness import registry  # pylint: disable=import-outside-toplevel
    thorough = tier == 'thorough'
    out = []
    versions = [item.value.code for item in TlsVersion]
    half = len(versions) // 2
    for index, codes in enumerate((versions[:half], versions[half:])):
        out.append(Shard(MOD, 'ja3_version', 'version/%d' % index, {'CODES': codes}, 600,
                         bounds='every defined protocol version (half %d of the table)' % index))
    step = 128 if not thorough else 512
    all_lows = list(range(0, 65536, step))
    interesting = sorted({0x00ff // step * step, 0x5600 // step * step, 0x0a0a // step * step, 0xc02f // step * step,
                          0x1301 // step * step})
    for base_idx, (suites, ext) in enumerate((([0x1301, 0xc02f, 0x009c], True), ([0x1301], False))):
        for pos in range(len(suites)):
            lows = all_lows if thorough else sorted(set(interesting[:3] + [all_lows[(seed + pos) % len(all_lows)]]))
            if thorough and (base_idx, pos) != (0, 0):
                # the whole code space at one position; at the others the assigned / GREASE / SCSV ranges and 12 more
                lows = sorted(set(interesting + [all_lows[(seed * 7 + pos * 13 + k * 11) % len(all_lows)] for k in range(12)]))
            if not thorough and pos == 1:
                continue
            if not thorough and base_idx == 1:
                lows = [interesting[0], interesting[2], interesting[3]]     # SCSV, TLS 1.3 and fallback-SCSV ranges
            spans_ = [(low, low + step) for low in lows]
            if not thorough and base_idx == 1:
                # with the compose + parse clause every path costs seconds: narrow ranges around the SCSV, TLS 1.3,
                # fallback-SCSV and GREASE codes
                spans_ = [(0x00f8, 0x0100), (0x1300, 0x1308), (0x5600, 0x5604), (0x0a08, 0x0a0c)]
            for low, high in spans_:
                out.append(Shard(MOD, 'ja3_suite', 'suite/%d-%d/%04x' % (base_idx, pos, low),
                                 {'SUITES': suites, 'POS': pos, 'EXT': ext, 'LO': low, 'HI': high,
                                  'AGAIN': base_idx == 1}, 900,
                                 bounds='cipher suite at position %d of %d ranging over %#06x..%#06x (known, unknown, '
                                        'GREASE, SCSV), extensions %s%s' % (
                                            pos, len(suites), low, high - 1, 'present' if ext else 'absent',
                                            ', and the same JA3 after compose + parse' if base_idx == 1 else '')))
    parsed_types = set()
    for cls in registry.leaf_parsable_classes():
        if registry.class_name(cls).startswith('cryptoparser.tls.extension.TlsExtension') and hasattr(
                cls, 'get_extension_type'):
            try:
                parsed_types.add(cls.get_extension_type().value.code)
            except Exception:  # pylint: disable=broad-except
                pass
    ext_step = 4096
    ext_lows = list(range(0, 65536, ext_step))

    def spans(lows, cut):
        # the first range holds nearly all assigned codes (one path each): split it so that it spreads over processes
        out_spans = []
        for low in lows:
            if low == 0:
                out_spans += [(0, cut), (cut, 2 * cut), (2 * cut, ext_step)]
            else:
                out_spans.append((low, low + ext_step))
        return out_spans

    for pos in (0, 1, 3):
        lows = ext_lows if thorough else sorted({0, 0x0a0a // ext_step * ext_step, 0xf000, ext_lows[(seed + pos) % 16]})
        if not thorough and pos == 1:
            continue
        if not thorough and pos == 3:
            lows = [low for low in lows if low]
        for low, high in spans(lows, 18):
            out.append(Shard(MOD, 'ja3_extension_type', 'extension/%d/%04x' % (pos, low),
                             {'POS': pos, 'LO': low, 'HI': high, 'PARSED': sorted(parsed_types)}, 900,
                             bounds='extension with empty body and type %#06x..%#06x (unparsed, unknown, GREASE) at '
                                    'position %d of 4' % (low, high - 1, pos)))
    for pos in (0, 2):
        for formats in (True, False):
            lows = ext_lows if thorough else sorted({0, 0x0a0a // ext_step * ext_step, ext_lows[(seed + 3) % 16]})
            if not thorough and not formats:
                lows = lows[:1]
            for low, high in spans(lows, 20):
                out.append(Shard(MOD, 'ja3_group', 'group/%d%s/%04x' % (pos, 'f' if formats else '', low),
                                 {'POS': pos, 'FORMATS': formats, 'LO': low, 'HI': high}, 900,
                                 bounds='supported group %#06x..%#06x at position %d of 3, ec_point_formats %s' % (
                                     low, high - 1, pos, 'present' if formats else 'absent')))
    for pos in (0, 1):
        for groups in (True, False):
            out.append(Shard(MOD, 'ja3_point_format', 'point_format/%d%s' % (pos, 'g' if groups else ''),
                             {'POS': pos, 'GROUPS': groups}, 600,
                             bounds='every point format code at position %d, supported_groups %s' % (
                                 pos, 'present' if groups else 'absent')))
    for low, high in ((0, 16), (16, 32), (32, 48), (48, 64), (64, 128), (128, 192), (192, 256)):
        out.append(Shard(MOD, 'ja3_after_history', 'after_history/%02x' % low,
                         {'LO': low, 'HI': high, 'PARSED': sorted(parsed_types), 'AGAIN': False}, 600,
                         bounds='integer %#04x..%#04x first parsed as a psk mode (one-byte list), then hello B with '
                                'the same integer as extension type and group' % (low, high - 1)))
    out.append(Shard(MOD, 'ja3_history', 'history', {}, kind='concrete',
                     bounds='every integer 0..255 parsed first in a one-byte list and then as two-byte extension type, '
                            'group and suite (and the reverse order) in one process: JA3 equals the history-free '
                            'reference (natively)'))
    out.append(Shard(MOD, 'ja3_known_extensions', 'known_extensions', {}, kind='concrete',
                     bounds='hellos carrying every extension vector of the seed corpus, alone and in triples (natively)'))
    return out
