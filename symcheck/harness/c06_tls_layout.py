# -*- coding: utf-8 -*-
"""C06 - SSL/TLS messages are laid out exactly as the RFCs specify.

Oracle: symcheck/refs/tls_ref.py (independent encoder).  P-direction: parse_exact_size(ref(fields))
recovers exactly `fields` and composes back to the same bytes; K-direction: objects built through
the constructors compose to ref(fields).  One symbolic dimension per shard.
"""
from symcheck import api
from symcheck.api import parse_errors, reach
from symcheck.harness import registry
from symcheck.refs import tls_ref as ref
from symcheck.runner import Shard

MOD = __name__
P = {}
PARSE_ERRORS = parse_errors()

RANDOM = bytes.fromhex('5b6cd580') + bytes(range(28))          # gmt_unix_time 2018-08-10 + 28 random bytes
SCSV_FALLBACK, SCSV_RENEG = 0x5600, 0x00ff


def _known(code, codes):
    return any([code == item for item in codes])  # pylint: disable=use-a-generator


def _codes(values):
    return [getattr(item, 'value').code for item in values]


def _in_range(code):
    return P.get('LO', 0) <= code < P.get('HI', 2 ** 32)


# --- records -------------------------------------------------------------------------------------------------------

def record_layout(fragment: bytes) -> bool:
    """post: _"""
    from cryptodatahub.tls.version import TlsVersion  # pylint: disable=import-outside-toplevel
    from cryptoparser.tls.record import TlsRecord  # pylint: disable=import-outside-toplevel
    from cryptoparser.tls.subprotocol import TlsContentType  # pylint: disable=import-outside-toplevel
    from cryptoparser.tls.version import TlsProtocolVersion  # pylint: disable=import-outside-toplevel
    if len(fragment) > P['B']:
        return True
    ctype, version = P['CTYPE'], P['VERSION']
    wire = ref.record(ctype, version, fragment)
    member = [item for item in TlsVersion if item.value.code == version][0]
    built = TlsRecord(fragment, TlsProtocolVersion(member), TlsContentType(ctype))
    if bytes(built.compose()) != wire:
        return False
    parsed = TlsRecord.parse_exact_size(wire)
    reach()
    return (int(parsed.content_type) == ctype and parsed.protocol_version.version.value.code == version and
            bytes(parsed.fragment) == fragment and bytes(parsed.compose()) == wire)


def record_boundary(first: int, last: int) -> bool:
    """post: _"""
    from cryptoparser.tls.record import TlsRecord  # pylint: disable=import-outside-toplevel
    if not (0 <= first < 256 and 0 <= last < 256):
        return True
    length = P['LENGTH']
    fragment = bytes([first]) + bytes(length - 2) + bytes([last])
    wire = ref.record(23, 0x0303, fragment)
    parsed = TlsRecord.parse_exact_size(wire)
    reach()
    return bytes(parsed.fragment) == fragment and bytes(parsed.compose()) == wire


# --- client hello ----------------------------------------------------------------------------------------------------

def _hello_fields():
    return {'version': 0x0303, 'session_id': b'', 'suites': [0x002f, 0x1301, 0xc02f], 'compressions': [0],
            'extensions': None}


def _check_client_hello(fields):
    from cryptoparser.tls.subprotocol import TlsHandshakeClientHello  # pylint: disable=import-outside-toplevel
    wire = ref.client_hello(fields['version'], RANDOM, fields['session_id'], fields['suites'], fields['compressions'],
                            fields['extensions'])
    expected = [code for code in fields['suites'] if code not in (SCSV_FALLBACK, SCSV_RENEG)]
    if not expected:
        return True     # a hello offering nothing but signalling values is not a meaningful message
    try:
        hello = TlsHandshakeClientHello.parse_exact_size(wire)
    except PARSE_ERRORS:
        return None
    reach()
    if hello.protocol_version.version.value.code != fields['version']:
        return False
    if bytes(bytearray(hello.session_id)) != fields['session_id']:
        return False
    if _codes(hello.cipher_suites) != expected:
        api.note('cipher suites %r' % (_codes(hello.cipher_suites),))
        return False
    if hello.fallback_scsv != (SCSV_FALLBACK in fields['suites']):
        return False
    if hello.empty_renegotiation_info_scsv != (SCSV_RENEG in fields['suites']):
        return False
    if _codes(hello.compression_methods) != fields['compressions']:
        return False
    if bytes(hello.random.compose()) != RANDOM:
        return False
    if len(hello.extensions) != len(fields['extensions'] or []):
        return False
    # canonical re-composition: the markers go to the end of the list (any position is conformant)
    canonical = expected + ([SCSV_FALLBACK] if SCSV_FALLBACK in fields['suites'] else []) + (
        [SCSV_RENEG] if SCSV_RENEG in fields['suites'] else [])
    extensions = fields['extensions']
    again = ref.client_hello(fields['version'], RANDOM, fields['session_id'], canonical, fields['compressions'],
                             extensions)
    if extensions == []:
        # an empty extension block may be re-emitted as an absent one
        return bytes(hello.compose()) in (again, ref.client_hello(fields['version'], RANDOM, fields['session_id'],
                                                                 canonical, fields['compressions'], None))
    return bytes(hello.compose()) == again


def client_hello_version(code: int) -> bool:
    """post: _"""
    if not _known(code, P['CODES']):
        return True
    fields = _hello_fields()
    fields['version'] = code
    return _check_client_hello(fields) is not False


def client_hello_suite(code: int) -> bool:
    """post: _"""
    if not (0 <= code < 65536 and _in_range(code)):
        return True
    fields = _hello_fields()
    fields['suites'] = list(P['SUITES'])
    fields['suites'][P['POS']] = code
    result = _check_client_hello(fields)
    return result is True       # every 16-bit code must be accepted (known, unknown, GREASE, SCSV)


def client_hello_session_id(body: bytes) -> bool:
    """post: _"""
    if len(body) > 2:
        return True
    fields = _hello_fields()
    fields['session_id'] = body + bytes(P['LEN'] - len(body)) if P['LEN'] >= len(body) else body[:P['LEN']]
    return _check_client_hello(fields) is True


def client_hello_compression(code: int) -> bool:
    """post: _"""
    if not 0 <= code < 256:
        return True
    fields = _hello_fields()
    fields['compressions'] = [0, code] if P['POS'] else [code]
    fields['extensions'] = [] if P.get('EMPTY_EXT') else None
    return _check_client_hello(fields) is True


# --- server hello ----------------------------------------------------------------------------------------------------

def server_hello(code: int, body: bytes) -> bool:
    """post: _"""
    from cryptoparser.tls.subprotocol import TlsHandshakeServerHello  # pylint: disable=import-outside-toplevel
    if len(body) > 2 or not 0 <= code < 65536:
        return True
    version, suite, compression = 0x0303, 0xc02f, 0
    dim = P['DIM']
    if dim == 'version':
        if not _known(code, P['CODES']):
            return True
        version = code
    elif dim == 'suite':
        if not (_known(code, P['CODES']) and _in_range(code)):
            return True
        suite = code
    elif dim == 'compression':
        if not _known(code, P['CODES']):
            return True
        compression = code
    extensions = [] if P.get('EXT') == 'empty' else None
    wire = ref.server_hello(version, RANDOM, body, suite, compression, extensions)
    try:
        hello = TlsHandshakeServerHello.parse_exact_size(wire)
    except PARSE_ERRORS:
        return False
    reach()
    if hello.protocol_version.version.value.code != version or hello.cipher_suite.value.code != suite:
        return False
    if hello.compression_method.value.code != compression or bytes(bytearray(hello.session_id)) != body:
        return False
    composed = bytes(hello.compose())
    return composed == wire or (extensions == [] and composed == ref.server_hello(version, RANDOM, body, suite,
                                                                                   compression, None))


# --- extensions ------------------------------------------------------------------------------------------------------

def _ext_class(name):
    return registry.resolve('cryptoparser.tls.extension.' + name)


def ext_code_list(code: int) -> bool:
    """post: _"""
    # list-of-codes extensions: one symbolic code at position POS of a list of K items
    kind = P['KIND']
    width = P['WIDTH']
    if not (0 <= code < 2 ** (8 * width) and _in_range(code)):
        return True
    codes = list(P['BASE'])
    codes[P['POS']] = code
    if kind == 'supported_groups':
        wire, cls, attr_name = ref.ext_supported_groups(codes), _ext_class('TlsExtensionEllipticCurves'), 'elliptic_curves'
    elif kind == 'ec_point_formats':
        wire, cls, attr_name = ref.ext_ec_point_formats(codes), _ext_class('TlsExtensionECPointFormats'), 'point_formats'
    elif kind == 'signature_algorithms':
        wire, cls, attr_name = (ref.ext_signature_algorithms(codes), _ext_class('TlsExtensionSignatureAlgorithms'),
                                'hash_and_signature_algorithms')
    elif kind == 'psk_modes':
        wire, cls, attr_name = ref.ext_psk_modes(codes), _ext_class('TlsExtensionPskKeyExchangeModes'), 'key_exchange_modes'
    else:
        raise NotImplementedError(kind)
    try:
        ext = cls.parse_exact_size(wire)
    except PARSE_ERRORS:
        return False
    reach()
    if _codes(getattr(ext, attr_name)) != codes:
        return False
    return bytes(ext.compose()) == wire


def ext_supported_versions(code: int) -> bool:
    """post: _"""
    if not _known(code, P['CODES']):
        return True
    if P['SIDE'] == 'client':
        codes = [0x0304, 0x0303]
        codes[P['POS']] = code
        wire = ref.ext_supported_versions_client(codes)
        ext = _ext_class('TlsExtensionSupportedVersionsClient').parse_exact_size(wire)
        got = [item.version.value.code for item in ext.supported_versions]
        reach()
        return got == codes and bytes(ext.compose()) == wire
    wire = ref.ext_supported_versions_server(code)
    ext = _ext_class('TlsExtensionSupportedVersionsServer').parse_exact_size(wire)
    reach()
    return ext.selected_version.version.value.code == code and bytes(ext.compose()) == wire


def ext_opaque(data: bytes, number: int) -> bool:
    """post: _"""
    kind = P['KIND']
    if len(data) > P['B'] or not 0 <= number < 65536:
        return True
    if kind == 'session_ticket':
        wire, cls = ref.ext_session_ticket(data), _ext_class('TlsExtensionSessionTicket')
        check = lambda ext: bytes(ext.session_ticket) == data   # noqa: E731
        built = cls(bytearray(data))
    elif kind == 'renegotiation_info':
        wire, cls = ref.ext_renegotiation_info(data), _ext_class('TlsExtensionRenegotiationInfo')
        check = lambda ext: bytes(bytearray(ext.renegotiated_connection)) == data   # noqa: E731
        built = cls(registry.resolve('cryptoparser.tls.extension.TlsRenegotiatedConnection')(list(data)))
    elif kind == 'record_size_limit':
        wire, cls = ref.ext_record_size_limit(number), _ext_class('TlsExtensionRecordSizeLimit')
        check = lambda ext: ext.record_size_limit == number   # noqa: E731
        built = cls(number)
    elif kind == 'padding':
        if number > 12:
            return True
        wire, cls = ref.ext_padding(number), _ext_class('TlsExtensionPadding')
        check = lambda ext: ext.length == number   # noqa: E731
        built = cls(number)
    elif kind == 'unparsed':
        from cryptoparser.tls.grease import TlsInvalidTypeTwoByte  # pylint: disable=import-outside-toplevel
        wire, cls = ref.extension(number, data), _ext_class('TlsExtensionUnparsed')
        check = lambda ext: ext.extension_type.value.code == number and bytes(ext.extension_data) == data   # noqa: E731
        built = cls(TlsInvalidTypeTwoByte(number), data)
    elif kind == 'server_name':
        for char in data:
            if not (97 <= char <= 122 or 48 <= char <= 57):
                return True
        if len(data) < 1:
            return True
        host = data + b'.example.com'
        wire, cls = ref.ext_server_name(host), _ext_class('TlsExtensionServerNameClient')
        check = lambda ext: ext.host_name == host.decode('ascii')   # noqa: E731
        built = cls(host.decode('ascii'))
    elif kind == 'key_share':
        if len(data) < 1:
            return True
        wire, cls = ref.ext_key_share_client([(0x001d, data)]), _ext_class('TlsExtensionKeyShareClient')
        check = lambda ext: (len(ext.key_share_entries) == 1 and  # noqa: E731
                             ext.key_share_entries[0].group.value.code == 0x001d and
                             bytes(bytearray(ext.key_share_entries[0].key_exchange)) == data)
        built = None
    elif kind == 'alpn':
        names = [b'h2', b'http/1.1'][:1 + number % 2]
        wire, cls = ref.ext_alpn(names), _ext_class('TlsExtensionApplicationLayerProtocolNegotiation')
        check = lambda ext: [item.value.code.encode('ascii') for item in ext.protocol_names] == names   # noqa: E731
        built = None
    else:
        raise NotImplementedError(kind)
    if built is not None and bytes(built.compose()) != wire:
        api.note('constructed object composes to %r, reference %r' % (bytes(built.compose()), wire))
        return False
    try:
        ext = cls.parse_exact_size(wire)
    except PARSE_ERRORS:
        return False
    reach()
    return bool(check(ext)) and bytes(ext.compose()) == wire


def ext_empty(dummy: int) -> bool:
    """post: _"""
    cls = _ext_class(P['CLASS'])
    wire = ref.ext_empty(P['TYPE'])
    ext = cls.parse_exact_size(wire)
    reach()
    return bytes(ext.compose()) == wire and bytes(cls().compose()) == wire


# --- other handshake messages ------------------------------------------------------------------------------------------

def certificate_chain(first: bytes, second: bytes, count: int) -> bool:
    """post: _"""
    from cryptoparser.tls.subprotocol import (  # pylint: disable=import-outside-toplevel
        TlsCertificate, TlsCertificates, TlsHandshakeCertificate,
    )
    if not (1 <= len(first) <= 2 and 1 <= len(second) <= 2 and 1 <= count <= 2):
        return True
    chain = [first, second][:count]
    wire = ref.certificate(chain)
    built = TlsHandshakeCertificate(TlsCertificates([TlsCertificate(item) for item in chain]))
    if bytes(built.compose()) != wire:
        return False
    parsed = TlsHandshakeCertificate.parse_exact_size(wire)
    reach()
    return [bytes(item.certificate) for item in parsed.certificate_chain] == chain and bytes(parsed.compose()) == wire


def certificate_request(ctype: int, alg: int, name: bytes) -> bool:
    """post: _"""
    from cryptoparser.tls.subprotocol import TlsHandshakeCertificateRequest  # pylint: disable=import-outside-toplevel
    if not (_known(ctype, P['CTYPES']) and _known(alg, P['ALGS']) and len(name) <= 1):
        return True
    if P['DIM'] == 'ctype' and (alg != P['ALGS'][0] or name != b''):
        return True
    if P['DIM'] == 'alg' and (ctype != P['CTYPES'][0] or name != b''):
        return True
    if P['DIM'] == 'name' and (ctype != P['CTYPES'][0] or alg != P['ALGS'][0]):
        return True
    names = [name] if name else []
    algs = [alg] if P['WITH_ALGS'] else None
    wire = ref.certificate_request([ctype], algs, names)
    try:
        parsed = TlsHandshakeCertificateRequest.parse_exact_size(wire)
    except PARSE_ERRORS:
        return False
    reach()
    if [int(item) for item in parsed.certificate_types] != [ctype]:
        return False
    if [bytes(bytearray(item)) for item in parsed.certificate_authorities] != names:
        return False
    if P['WITH_ALGS']:
        if _codes(parsed.supported_signature_algorithms) != [alg]:
            return False
    elif parsed.supported_signature_algorithms is not None and len(parsed.supported_signature_algorithms) != 0:
        return False
    return bytes(parsed.compose()) == wire


def small_messages(data: bytes, code: int) -> bool:
    """post: _"""
    from cryptoparser.tls import subprotocol  # pylint: disable=import-outside-toplevel
    if len(data) > 3 or not 0 <= code < 256:
        return True
    kind = P['KIND']
    if kind == 'server_key_exchange':
        wire, cls = ref.server_key_exchange(data), subprotocol.TlsHandshakeServerKeyExchange
        built = cls(data)
    elif kind == 'server_hello_done':
        wire, cls = ref.server_hello_done(), subprotocol.TlsHandshakeServerHelloDone
        built = cls()
    elif kind == 'certificate_status':
        if len(data) < 1:
            return True
        wire, cls = ref.certificate_status(1, data), subprotocol.TlsHandshakeCertificateStatus
        built = cls(subprotocol.TlsCertificateStatusType.OCSP, data)
    elif kind == 'change_cipher_spec':
        wire, cls = b'\x01', subprotocol.TlsChangeCipherSpecMessage
        built = cls()
    elif kind == 'ssl2_error':
        if not _known(code, [int(item) for item in subprotocol.SslErrorType]):
            return True
        from cryptoparser.tls.record import SslRecord  # pylint: disable=import-outside-toplevel
        wire, cls = ref.ssl2_error(code), SslRecord
        built = SslRecord(subprotocol.SslErrorMessage(subprotocol.SslErrorType(code)))
    else:
        raise NotImplementedError(kind)
    if bytes(built.compose()) != wire:
        return False
    parsed = cls.parse_exact_size(wire)
    reach()
    return bytes(parsed.compose()) == wire and api.deep_eq(parsed, built)


def ssl2_client_hello(kind: int, challenge: bytes) -> bool:
    """post: _"""
    from cryptoparser.tls.record import SslRecord  # pylint: disable=import-outside-toplevel
    if not (_known(kind, P['KINDS']) and len(challenge) <= 2):
        return True
    full = challenge + bytes(16 - len(challenge))
    wire = ref.ssl2_client_hello(0x0002, [0x010080, kind], b'', full)
    try:
        record = SslRecord.parse_exact_size(wire)
    except PARSE_ERRORS:
        return False
    reach()
    hello = record.message
    if _codes(hello.cipher_kinds) != [0x010080, kind] or bytes(bytearray(hello.challenge)) != full:
        return False
    return bytes(record.compose()) == wire


def ssl2_large_records():
    """concrete: SSL 2.0 records whose body needs more than 14 bits of length (two-byte header: 15-bit length)"""
    from cryptoparser.tls.record import SslRecord  # pylint: disable=import-outside-toplevel
    problems = []
    for count in (5, 5461, 5462, 10000, 10914):
        wire = ref.ssl2_client_hello(0x0002, [0x010080] * count, b'', bytes(range(16)))
        try:
            record = SslRecord.parse_exact_size(wire)
        except Exception as exc:  # pylint: disable=broad-except
            problems.append('client hello with %d cipher specs (%d bytes) rejected: %s' % (count, len(wire),
                                                                                            type(exc).__name__))
            continue
        composed = bytes(record.compose())
        if composed != wire:
            problems.append('client hello with %d cipher specs: header %s, reference %s' % (
                count, composed[:2].hex(), wire[:2].hex()))
    return problems


# --- vector table (concrete side condition) ----------------------------------------------------------------------------

def vector_table():
    """floor, ceiling and prefix width of every TLS vector class against the RFC table of the reference"""
    from cryptoparser.common.base import ArrayBase  # pylint: disable=import-outside-toplevel
    from cryptoparser.common.utils import get_leaf_classes  # pylint: disable=import-outside-toplevel
    registry.import_all()
    problems = []
    seen = set()
    for cls in get_leaf_classes(ArrayBase):
        if not cls.__module__.startswith('cryptoparser.tls.') or cls in seen:
            continue
        seen.add(cls)
        if cls.__name__ not in ref.VECTOR_BOUNDS:
            if cls.__name__ not in ('TlsHandshakeHelloRandomBytes', 'TlsProtocolNameFactory', 'TlsNextProtocolNameFactory'):
                problems.append('%s: no entry in the reference vector table (new vector class?)' % cls.__name__)
            continue
        floor, ceiling = ref.VECTOR_BOUNDS[cls.__name__]
        if floor is None:
            continue
        param = cls.get_param()
        if (param.min_byte_num, param.max_byte_num) != (floor, ceiling):
            problems.append('%s: bounds <%d..%d>, RFC <%d..%d>' % (cls.__name__, param.min_byte_num, param.max_byte_num,
                                                                  floor, ceiling))
        if param.item_num_size != ref.prefix_width(ceiling):
            problems.append('%s: length prefix of %d bytes, RFC ceiling %d needs %d' % (
                cls.__name__, param.item_num_size, ceiling, ref.prefix_width(ceiling)))
    return problems


def sample_args(rng, kwargs):
    out = {}
    for name in kwargs:
        if name == 'code' and P.get('CODES'):
            out[name] = rng.choice(P['CODES'])
        elif name == 'code':
            out[name] = P.get('LO', 0) + rng.randrange(0, 256)
        elif name in ('fragment', 'body', 'data', 'first', 'second', 'name', 'challenge') and kwargs[name].__class__ is bytes:
            out[name] = bytes(rng.choice(b'ab01') for _ in range(rng.randrange(0, 3)))
        elif name == 'count':
            out[name] = rng.randrange(1, 3)
        elif name == 'number':
            out[name] = rng.randrange(0, 13)
        elif name == 'ctype':
            out[name] = rng.choice(P.get('CTYPES', [1]))
        elif name == 'alg':
            out[name] = rng.choice(P.get('ALGS', [0x0401]))
        elif name == 'kind':
            out[name] = rng.choice(P.get('KINDS', [0x010080]))
        elif name in ('first', 'last'):
            out[name] = rng.randrange(256)
    return out


def shards(tier, seed):  # pylint: disable=too-many-locals,too-many-statements
    from cryptodatahub.tls.algorithm import (  # pylint: disable=import-outside-toplevel
        SslCipherKind, TlsCipherSuite, TlsCompressionMethod, TlsSignatureAndHashAlgorithm,
    )
    from cryptodatahub.tls.version import TlsVersion  # pylint: disable=import-outside-toplevel
    from cryptoparser.tls.subprotocol import TlsClientCertificateType, TlsContentType  # pylint: disable=import-outside-toplevel
    thorough = tier == 'thorough'
    out = []
    versions = [item.value.code for item in TlsVersion]
    record_versions = [0x0300, 0x0301, 0x0303] if not thorough else [code for code in versions if code != 2]
    for ctype in sorted(int(item) for item in TlsContentType):
        for version in record_versions:
            out.append(Shard(MOD, 'record_layout', 'record/%d-%04x' % (ctype, version),
                             {'CTYPE': ctype, 'VERSION': version, 'B': 4 if thorough else 3}, 120,
                             bounds='record of type %d version %04x, fragment <= %d symbolic bytes' % (
                                 ctype, version, 4 if thorough else 3)))
    for length in (2 ** 14, 2 ** 16 - 1):
        out.append(Shard(MOD, 'record_boundary', 'record/len%d' % length, {'LENGTH': length}, 300,
                         bounds='fragment of %d bytes, first and last byte symbolic' % length))
    out.append(Shard(MOD, 'client_hello_version', 'client_hello/version', {'CODES': versions}, 400,
                     bounds='client hello, every defined protocol version'))
    pieces = 64
    step = 65536 // pieces
    for base_idx, base in enumerate(([0x002f, 0x1301, 0xc02f], [0x5600, 0x002f, 0x00ff])):
        for pos in range(3):
            lows = list(range(0, 65536, step))
            if not thorough:
                # quick: the ranges holding the SCSV markers, the first GREASE value, and a seed-rotated one
                lows = sorted({0x5600 // step * step, 0, 0x0a0a // step * step, lows[seed % pieces]})
                if base_idx == 1 and pos != 1:
                    continue
            elif (base_idx, pos) != (0, 0):
                # thorough: the whole code space at one position, the marker ranges and 6 rotated ones at the others
                lows = sorted({0x5600 // step * step, 0, 0x0a0a // step * step} |
                              {lows[(seed * 5 + pos * 7 + k * 11) % pieces] for k in range(6)})
            for low in lows:
                out.append(Shard(MOD, 'client_hello_suite', 'client_hello/suite/%d-%d/%04x' % (base_idx, pos, low),
                                 {'SUITES': base, 'POS': pos, 'LO': low, 'HI': low + step}, 600,
                                 bounds='client hello with suites %s, position %d ranging over codes %#06x..%#06x' % (
                                     ['%04x' % item for item in base], pos, low, low + step - 1)))
    for length in (0, 1, 32):
        out.append(Shard(MOD, 'client_hello_session_id', 'client_hello/session_id/%d' % length, {'LEN': length}, 300,
                         bounds='session id of %d bytes, first two symbolic' % length))
    for pos in (0, 1):
        for empty_ext in (False, True):
            out.append(Shard(MOD, 'client_hello_compression', 'client_hello/compression/%d%s' % (
                pos, '-emptyext' if empty_ext else ''), {'POS': pos, 'EMPTY_EXT': empty_ext}, 300,
                bounds='every compression method code at position %d; extension block %s' % (
                    pos, 'present and empty' if empty_ext else 'absent')))
    suites = sorted(item.value.code for item in TlsCipherSuite)
    out.append(Shard(MOD, 'server_hello', 'server_hello/version', {'DIM': 'version', 'CODES': versions}, 400,
                     bounds='server hello, every defined version, session id <= 2 symbolic bytes'))
    chunk = 256 if thorough else 64
    lows = [low for low in range(0, 65536, chunk) if any(low <= code < low + chunk for code in suites)]
    if not thorough:
        lows = sorted({lows[0], 0xc000, 0x1300, lows[seed % len(lows)]})
    for low in lows:
        inside = [code for code in suites if low <= code < low + chunk]
        if inside:
            out.append(Shard(MOD, 'server_hello', 'server_hello/suite/%04x' % low,
                             {'DIM': 'suite', 'CODES': inside, 'LO': low, 'HI': low + chunk}, 900,
                             bounds='server hello, every defined cipher suite in %#06x..%#06x (%d members)' % (
                                 low, low + chunk - 1, len(inside))))
    out.append(Shard(MOD, 'server_hello', 'server_hello/compression',
                     {'DIM': 'compression', 'CODES': sorted(item.value.code for item in TlsCompressionMethod),
                      'EXT': 'empty'}, 300, bounds='server hello, every defined compression method, empty extensions'))
    lists = [('supported_groups', 2, [0x001d, 0x0017, 0x0018]), ('ec_point_formats', 1, [0, 1]),
             ('signature_algorithms', 2, [0x0403, 0x0804]), ('psk_modes', 1, [1, 0])]
    for kind, width, base in lists:
        for pos in range(len(base)):
            space = 2 ** (8 * width)
            chunk = space // (8 if width == 2 else 1)
            lows = list(range(0, space, chunk))
            if not thorough and width == 2:
                lows = sorted({0, 0x0a0a // chunk * chunk, lows[seed % len(lows)]})
                if pos == 1:
                    lows = lows[:1]
            for low in lows:
                out.append(Shard(MOD, 'ext_code_list', 'ext/%s/%d/%x' % (kind, pos, low),
                                 {'KIND': kind, 'WIDTH': width, 'BASE': base, 'POS': pos, 'LO': low, 'HI': low + chunk},
                                 400, bounds='%s with codes %s, position %d over %#x..%#x' % (
                                     kind, base, pos, low, low + chunk - 1)))
    for side, positions in (('client', (0, 1)), ('server', (0,))):
        for pos in positions:
            out.append(Shard(MOD, 'ext_supported_versions', 'ext/supported_versions/%s/%d' % (side, pos),
                             {'SIDE': side, 'POS': pos, 'CODES': versions}, 300,
                             bounds='supported_versions (%s), every defined version at position %d' % (side, pos)))
    for kind in ('session_ticket', 'renegotiation_info', 'record_size_limit', 'padding', 'unparsed', 'server_name',
                 'key_share', 'alpn'):
        small = kind in ('renegotiation_info', 'server_name', 'key_share')
        out.append(Shard(MOD, 'ext_opaque', 'ext/' + kind, {'KIND': kind, 'B': 1 if (small and not thorough) else 3},
                         600 if thorough else 240,
                         bounds='%s extension: opaque part <= %d symbolic bytes, integer part full width' % (
                             kind, 1 if (small and not thorough) else 3)))
    for cls_name, ext_type in (('TlsExtensionExtendedMasterSecret', 23), ('TlsExtensionEncryptThenMAC', 22)):
        out.append(Shard(MOD, 'ext_empty', 'ext/' + cls_name, {'CLASS': cls_name, 'TYPE': ext_type}, 60,
                         bounds='empty-bodied extension'))
    out.append(Shard(MOD, 'certificate_chain', 'certificate', {}, 300,
                     bounds='chain of 1..2 certificates of 1..2 symbolic bytes'))
    ctypes = sorted(int(item) for item in TlsClientCertificateType)
    algs = sorted(item.value.code for item in TlsSignatureAndHashAlgorithm)
    for with_algs in (False, True):
        out.append(Shard(MOD, 'certificate_request', 'certificate_request/ctype%s' % ('-algs' if with_algs else ''),
                         {'DIM': 'ctype', 'CTYPES': ctypes, 'ALGS': algs[:1], 'WITH_ALGS': with_algs}, 600,
                         bounds='every certificate type, no authority, %s signature '
                                'algorithms' % ('with' if with_algs else 'without')))
    for with_algs in (False, True):
        out.append(Shard(MOD, 'certificate_request', 'certificate_request/name%s' % ('-algs' if with_algs else ''),
                         {'DIM': 'name', 'CTYPES': ctypes[:1], 'ALGS': algs[:1], 'WITH_ALGS': with_algs}, 600,
                         bounds='no authority or one authority of 1 symbolic byte'))
    out.append(Shard(MOD, 'certificate_request', 'certificate_request/alg',
                     {'DIM': 'alg', 'CTYPES': ctypes[:1], 'ALGS': algs, 'WITH_ALGS': True}, 900,
                     bounds='every signature algorithm'))
    for kind in ('server_key_exchange', 'server_hello_done', 'certificate_status', 'change_cipher_spec', 'ssl2_error'):
        out.append(Shard(MOD, 'small_messages', 'message/' + kind, {'KIND': kind}, 200,
                         bounds=kind + ': opaque part <= 3 symbolic bytes'))
    out.append(Shard(MOD, 'ssl2_client_hello', 'message/ssl2_client_hello',
                     {'KINDS': sorted(item.value.code for item in SslCipherKind)}, 400,
                     bounds='SSL 2.0 client hello: every cipher kind, challenge with 2 symbolic bytes'))
    out.append(Shard(MOD, 'ssl2_large_records', 'message/ssl2_large_records', {}, kind='concrete',
                     bounds='SSL 2.0 client hellos of 26..32800 bytes (record length beyond 14 bits), natively'))
    out.append(Shard(MOD, 'vector_table', 'vector_table', {}, kind='concrete',
                     bounds='floor/ceiling/prefix width of every TLS vector class against the RFC table (natively)'))
    return out
