# -*- coding: utf-8 -*-
"""C11 - integer, flag, mpint and timestamp primitives of cryptoparser.common.parse"""
import datetime
import enum
import time
from typing import List

from cryptodatahub.common.exception import InvalidValue

from cryptoparser.common.parse import ByteOrder, ComposerBinary, ParserBinary

from symcheck.api import reach
from symcheck.runner import Shard

MOD = __name__
P = {}

SIZES = (1, 2, 3, 4, 8)
ORDERS = ('NATIVE', 'LITTLE_ENDIAN', 'BIG_ENDIAN', 'NETWORK')


def _ref_digits(value, size, order):
    """reference: base-256 digits of value, most significant first for big endian"""
    digits = []
    for idx in range(size):
        digits.append((value // (256 ** (size - 1 - idx))) % 256)
    if order in ('LITTLE_ENDIAN', 'NATIVE'):  # NATIVE == little endian on this host (stated assumption)
        digits.reverse()
    return digits


def compose_numeric(value: int) -> bool:
    """post: _"""
    size, order = P['SIZE'], P['ORDER']
    if not -256 <= value <= 2 ** (8 * size) + 256:
        return True
    composer = ComposerBinary(byte_order=ByteOrder[order])
    try:
        composer.compose_numeric(value, size)
    except InvalidValue:
        reach()
        return not 0 <= value < 2 ** (8 * size)
    reach()
    if not 0 <= value < 2 ** (8 * size):
        return False
    return list(composer.composed_bytes) == _ref_digits(value, size, order)


def parse_numeric(data: bytes) -> bool:
    """post: _"""
    size, order = P['SIZE'], P['ORDER']
    if len(data) != size + 1:
        return True
    parser = ParserBinary(data, byte_order=ByteOrder[order])
    parser.parse_numeric('v', size)
    digits = list(data[:size])
    if order in ('LITTLE_ENDIAN', 'NATIVE'):
        digits.reverse()
    ref = 0
    for digit in digits:
        ref = ref * 256 + digit
    reach()
    return parser['v'] == ref and parser.parsed_length == size and parser.unparsed_length == 1


def numeric_array_roundtrip(values: List[int]) -> bool:
    """post: _"""
    size, order = P['SIZE'], P['ORDER']
    if len(values) > 3:
        return True
    for value in values:
        if not 0 <= value < 2 ** (8 * size):
            return True
    composer = ComposerBinary(byte_order=ByteOrder[order])
    composer.compose_numeric_array(values, size)
    data = bytes(composer.composed_bytes)
    expected = []
    for value in values:
        expected.extend(_ref_digits(value, size, order))
    if list(data) != expected:
        return False
    parser = ParserBinary(data, byte_order=ByteOrder[order])
    parser.parse_numeric_array('v', len(values), size)
    reach()
    return list(parser['v']) == list(values) and parser.parsed_length == len(data)


def flags_roundtrip(word: int) -> bool:
    """post: _"""
    size, flags_class = P['SIZE'], _FLAG_SETS[P['FLAGS']]
    if not 0 <= word < 2 ** (8 * size):
        return True
    data = bytes(_ref_digits(word, size, 'BIG_ENDIAN'))
    parser = ParserBinary(data)
    parser.parse_numeric_flags('f', size, flags_class)
    flags = parser['f']
    expected = {flag for flag in flags_class if (word // flag.value) % 2 == 1}
    if set(flags) != expected:
        return False
    composer = ComposerBinary()
    composer.compose_numeric_flags(flags, size)
    total = 0
    for flag in expected:
        total += flag.value
    reach()
    return list(composer.composed_bytes) == _ref_digits(total, size, 'BIG_ENDIAN')


def _ref_ssh_mpint(value):
    """RFC 4251 section 5: two's complement, minimal length, big endian, uint32 length prefix"""
    if value == 0:
        body = []
    else:
        length = 1
        while not -(2 ** (8 * length - 1)) <= value < 2 ** (8 * length - 1):
            length += 1
        body = _ref_digits(value % (2 ** (8 * length)), length, 'BIG_ENDIAN')
    return _ref_digits(len(body), 4, 'BIG_ENDIAN') + body


def ssh_mpint(value: int) -> bool:
    """post: _"""
    low, high = P['LO'], P['HI']
    if not low <= value < high:
        return True
    composer = ComposerBinary()
    composer.compose_ssh_mpint(value)
    data = bytes(composer.composed_bytes)
    parser = ParserBinary(data + b'\x55')
    parser.parse_ssh_mpint('v')
    reach()
    if parser['v'] != value or parser.parsed_length != len(data):
        return False
    if value >= 0 or P.get('NEG_MINIMAL'):
        return list(data) == _ref_ssh_mpint(value)
    return True


def ssh_mpint_parse(data: bytes) -> bool:
    """post: _"""
    length = P['LEN']
    if len(data) != length:
        return True
    wire = bytes(_ref_digits(length, 4, 'BIG_ENDIAN')) + data
    parser = ParserBinary(wire)
    parser.parse_ssh_mpint('v')
    ref = 0
    for digit in data:
        ref = ref * 256 + digit
    if length and data[0] >= 0x80:
        ref -= 2 ** (8 * length)
    reach()
    return parser['v'] == ref and parser.parsed_length == 4 + length


def fixed_mpint(value: int) -> bool:
    """post: _"""
    length, order = P['LEN'], P['ORDER']
    if not 0 <= value < 2 ** (8 * length + 8):
        return True
    composer = ComposerBinary(byte_order=ByteOrder[order])
    try:
        composer.compose_mpint(value, length)
    except InvalidValue:
        reach()
        return value >= 2 ** (8 * length)
    if value >= 2 ** (8 * length):
        return False
    data = bytes(composer.composed_bytes)
    if list(data) != _ref_digits(value, length, order):
        return False
    if order in ('BIG_ENDIAN', 'NETWORK'):
        parser = ParserBinary(data)
        parser.parse_mpint('v', length)
        reach()
        return parser['v'] == value and parser.parsed_length == length
    reach()
    return True


# --- timestamps ----------------------------------------------------------------------------------
# S-tz: the `time` module seen by cryptoparser.common.parse is replaced by a model of an arbitrary
# POSIX time-zone configuration: standard offset, DST offset (both on a 15 min grid within +-14 h,
# DST east of standard), whether DST is in effect at the instant, and whether the DST period
# covers the dates CPython samples for time.altzone.  Every such configuration is realisable by a
# POSIX TZ string; the native replay builds that string, calls tzset() and checks that the real
# `time` module shows the modelled configuration before running the unmodified library.

class _TimeModel(object):  # pylint: disable=too-few-public-methods
    def __init__(self, std_east, dst_east, isdst, covers):
        import time as real_time  # pylint: disable=import-outside-toplevel,reimported
        self._real = real_time
        self._std, self._dst, self._isdst = std_east, dst_east, isdst
        self.timezone = -std_east
        self.altzone = -dst_east if covers else -std_east
        self.daylight = 1 if covers else 0
        self.struct_time = real_time.struct_time

    def _offset(self):
        return self._dst if self._isdst else self._std

    def mktime(self, ttuple):
        import calendar  # pylint: disable=import-outside-toplevel
        hint = ttuple[8]
        if hint == 0:
            offset = self._std
        elif hint > 0:
            offset = self._dst
        else:
            offset = self._offset()
        return float(calendar.timegm(tuple(ttuple)[:6] + (0, 0, 0)) - offset)

    def localtime(self, secs=None):
        local = _EPOCH + datetime.timedelta(seconds=int(secs) + self._offset())
        ttuple = local.timetuple()
        return self._real.struct_time(tuple(ttuple)[:8] + (1 if self._isdst else 0,))

    def gmtime(self, secs=None):
        return (_EPOCH + datetime.timedelta(seconds=int(secs))).timetuple()

    def __getattr__(self, name):
        return getattr(self._real, name)


def _install_time(model):
    import cryptoparser.common.parse as parse_mod  # pylint: disable=import-outside-toplevel
    parse_mod.time = model


def _uninstall_time():
    import cryptoparser.common.parse as parse_mod  # pylint: disable=import-outside-toplevel
    parse_mod.time = time


_EPOCH = datetime.datetime(1970, 1, 1)
_EPOCH_AWARE = datetime.datetime(1970, 1, 1, tzinfo=datetime.timezone.utc)


import calendar as _calendar

DATES_QUICK = ((1970, 1, 9), (2012, 3, 25), (2038, 1, 19))
DATES_THOROUGH = DATES_QUICK + (
    (1972, 2, 29), (1999, 12, 25), (2000, 2, 29), (2016, 10, 30), (2021, 6, 15), (2024, 12, 20), (2100, 3, 1),
    (2106, 1, 20),
)


def _timestamp_args_ok(hour, minute, second, millis, std_q, dst_q):
    if not (0 <= hour < 24 and 0 <= minute < 60 and 0 <= second < 60):
        return False
    if not 0 <= millis < 1000:
        return False
    if not P['MS'] and millis != 0:
        return False
    return -48 <= std_q <= 56 and std_q < dst_q <= std_q + 8


def _timestamp_value(hour, minute, second, millis):
    year, month, day = P['DATE']
    tzinfo = None
    if P['AWARE']:
        tzinfo = datetime.timezone.utc
        if P.get('TZINFO') == 'dateutil':
            import dateutil.tz  # pylint: disable=import-outside-toplevel
            tzinfo = dateutil.tz.UTC
    value = datetime.datetime(year, month, day, hour, minute, second, millis * 1000, tzinfo=tzinfo)
    expected = _calendar.timegm((year, month, day, 0, 0, 0)) + hour * 3600 + minute * 60 + second
    return value, expected


def _timestamp_check(hour, minute, second, millis):
    value, seconds = _timestamp_value(hour, minute, second, millis)
    composer = ComposerBinary()
    composer.compose_timestamp(value, milliseconds=P['MS'], item_size=P['SIZE'])
    expected = seconds * 1000 + millis if P['MS'] else seconds
    return list(composer.composed_bytes) == _ref_digits(expected, P['SIZE'], 'BIG_ENDIAN')


def timestamp_compose(hour: int, minute: int, second: int, millis: int, std_q: int, dst_q: int,
                      isdst: bool, covers: bool) -> bool:
    """post: _"""
    if not _timestamp_args_ok(hour, minute, second, millis, std_q, dst_q):
        return True
    if P.get('TIME'):
        # aware datetimes: utctimetuple() normalises through stdlib date arithmetic, which explodes on a fully
        # symbolic time of day; the time of day is concrete per shard, the clock configuration stays symbolic
        if hour != 0 or minute != 0 or second != 0 or millis != 0:
            return True
        hour, minute, second, millis = P['TIME']
        if not P['MS']:
            millis = 0
    _install_time(_TimeModel(900 * std_q, 900 * dst_q, isdst, covers))
    try:
        result = _timestamp_check(hour, minute, second, millis)
    finally:
        _uninstall_time()
    reach()
    return result


def _posix_tz(offset_east):
    sign = '-' if offset_east >= 0 else '+'
    offset = abs(offset_east)
    return '%s%d:%02d' % (sign, offset // 3600, offset % 3600 // 60)


def replay_timestamp_compose(hour, minute, second, millis, std_q, dst_q, isdst, covers):
    """real environment: POSIX TZ string realising the modelled configuration, real time module"""
    import os  # pylint: disable=import-outside-toplevel
    from symcheck.api import note  # pylint: disable=import-outside-toplevel
    if not _timestamp_args_ok(hour, minute, second, millis, std_q, dst_q):
        return True
    if P.get('TIME'):
        if hour != 0 or minute != 0 or second != 0 or millis != 0:
            return True
        hour, minute, second, millis = P['TIME']
        if not P['MS']:
            millis = 0
    std, dst = 900 * std_q, 900 * dst_q
    value, _ = _timestamp_value(hour, minute, second, millis)
    reading = value.replace(tzinfo=None).timetuple()   # the wall-clock reading the old code handed to mktime
    yday = reading.tm_yday - 1
    if isdst and covers:
        # DST period containing the reading and exactly one of the two dates CPython samples (1 Jan, 2 Jul)
        rule = '%d/0,%d/0' % (358 if yday < 175 else 178, yday + 3)
    elif isdst:
        rule = '%d/0,%d/0' % (yday - 2, yday + 3)
    elif covers:
        rule = '178/0,187/0'
    else:
        rule = '100/0,101/0' if not 90 <= yday <= 110 else '250/0,251/0'
    saved = os.environ.get('TZ')
    try:
        os.environ['TZ'] = 'AAA%sBBB%s,%s' % (_posix_tz(std), _posix_tz(dst), rule)
        time.tzset()
        local = time.localtime(time.mktime(tuple(reading)[:8] + (-1,)))
        realised = (local.tm_gmtoff == (dst if isdst else std) and bool(local.tm_isdst) == bool(isdst) and
                    time.timezone == -std and time.altzone == (-dst if covers else -std))
        note('TZ=%s realised=%s' % (os.environ['TZ'], realised))
        if not realised:
            return True
        return _timestamp_check(hour, minute, second, millis)
    finally:
        if saved is None:
            os.environ.pop('TZ', None)
        else:
            os.environ['TZ'] = saved
        time.tzset()


# S-dt: datetime.fromtimestamp(t, UTC) realises a symbolic t in CrossHair.  Inside parse_timestamp the
# `datetime` module is replaced by a shim whose instants are an integer count of microseconds since the
# epoch (the documented meaning of fromtimestamp(t, UTC) and of adding a timedelta).  Natively the real
# module is used and the result is converted to the same count.

class _ShimDelta(object):  # pylint: disable=too-few-public-methods
    def __init__(self, days=0, seconds=0, microseconds=0, milliseconds=0):
        self.micro = ((days * 86400 + seconds) * 1000 + milliseconds) * 1000 + microseconds


class _ShimInstant(object):  # pylint: disable=too-few-public-methods
    def __init__(self, micro):
        self.micro = micro

    @classmethod
    def fromtimestamp(cls, secs, tzinfo=None):
        if tzinfo is None:
            raise ValueError('local time requested')
        return cls(secs * 1000000)

    def __add__(self, delta):
        return _ShimInstant(self.micro + delta.micro)


class _ShimDatetimeModule(object):  # pylint: disable=too-few-public-methods
    datetime = _ShimInstant
    timedelta = _ShimDelta


def timestamp_parse(data: bytes) -> bool:
    """post: _"""
    import cryptoparser.common.parse as parse_mod  # pylint: disable=import-outside-toplevel
    size, use_ms = P['SIZE'], P['MS']
    if len(data) != size:
        return True
    raw = 0
    for digit in data:
        raw = raw * 256 + digit
    limit = (2 ** 32) * 1000 if use_ms else 2 ** 32
    if raw >= limit and raw != 2 ** (8 * size) - 1:
        return True
    parser = ParserBinary(data)
    shim = P.get('SHIM', True)
    if shim:
        parse_mod.datetime = _ShimDatetimeModule
    try:
        parser.parse_timestamp('t', milliseconds=use_ms, item_size=size)
    finally:
        parse_mod.datetime = datetime
    value = parser['t']
    reach()
    if raw == 2 ** (8 * size) - 1:
        return value is None
    if value is None:
        return False
    if shim:
        micro = value.micro
    else:
        delta = value - _EPOCH_AWARE
        micro = (delta.days * 86400 + delta.seconds) * 1000000 + delta.microseconds
    return micro == (raw * 1000 if use_ms else raw * 1000000)


def replay_timestamp_parse(data):
    P['SHIM'] = False
    return timestamp_parse(data)


def timestamp_none(dummy: int) -> bool:
    """post: _"""
    size = P['SIZE']
    composer = ComposerBinary()
    composer.compose_timestamp(None, item_size=size)
    reach()
    return list(composer.composed_bytes) == [255] * size


ZONES = ('UTC', 'Europe/Moscow', 'Europe/Budapest', 'America/Caracas', 'Australia/Lord_Howe', 'Asia/Kathmandu',
         'America/New_York', 'Pacific/Apia', 'Europe/Dublin', 'Africa/Casablanca', 'Asia/Tehran')
INSTANTS = (0, 86400, 1000000000, 1325376000, 1341100800, 1342000000, 1199145600, 1450000000, 1467331200,
            2000000000, 4102444800, 4294967294)


def timestamp_zones():
    """concrete side condition (enumerated, not solver-decided): real zoneinfo zones, incl. zones whose
    standard offset changed historically, which the POSIX model of S-tz does not cover"""
    import os  # pylint: disable=import-outside-toplevel
    problems = []
    saved = os.environ.get('TZ')
    try:
        for zone in ZONES:
            if not os.path.exists(os.path.join('/usr/share/zoneinfo', zone)):
                continue
            os.environ['TZ'] = zone
            time.tzset()
            for aware in (False, True):
                for use_ms, size in ((False, 4), (False, 8), (True, 8)):
                    P.update(SIZE=size, MS=use_ms, AWARE=aware)
                    for seconds in INSTANTS:
                        expected = seconds * 1000 + 7 if use_ms else seconds
                        base = _EPOCH_AWARE if aware else _EPOCH
                        value = base + datetime.timedelta(seconds=seconds, milliseconds=7 if use_ms else 0)
                        try:
                            composer = ComposerBinary()
                            composer.compose_timestamp(value, milliseconds=use_ms, item_size=size)
                            data = list(composer.composed_bytes)
                        except Exception as exc:  # pylint: disable=broad-except
                            data = repr(exc)
                        if data != _ref_digits(expected, size, 'BIG_ENDIAN'):
                            problems.append('TZ=%s %s instant=%d size=%d ms=%s: composed %r' % (
                                zone, 'aware' if aware else 'naive', seconds, size, use_ms, data))
    finally:
        if saved is None:
            os.environ.pop('TZ', None)
        else:
            os.environ['TZ'] = saved
        time.tzset()
    return problems


class _FlagsA(enum.IntEnum):
    A0 = 0x01
    A1 = 0x04
    A2 = 0x10
    A3 = 0x80


class _FlagsB(enum.IntEnum):
    B0 = 0x02
    B1 = 0x0100
    B2 = 0x4000
    B3 = 0x8000


class _FlagsC(enum.IntEnum):
    C0 = 0x010000
    C1 = 0x800000
    C2 = 0x01000000
    C3 = 0x80000000


_FLAG_SETS = {'A': _FlagsA, 'B': _FlagsB, 'C': _FlagsC}


def shards(tier, seed):  # pylint: disable=unused-argument,too-many-branches
    out = []
    thorough = tier == 'thorough'
    for size in SIZES:
        for order in ORDERS:
            par = {'SIZE': size, 'ORDER': order}
            tag = '%d-%s' % (size, order)
            out.append(Shard(MOD, 'compose_numeric', 'compose_numeric/' + tag, par, 40,
                             bounds='all v in [-256, 2^(8*%d)+256], byte order %s' % (size, order)))
            out.append(Shard(MOD, 'parse_numeric', 'parse_numeric/' + tag, par, 40,
                             bounds='all %d+1 byte buffers' % size))
            if size in (1, 2, 3) or thorough:
                out.append(Shard(MOD, 'numeric_array_roundtrip', 'numeric_array/' + tag, par, 60,
                                 bounds='all arrays of K<=3 values of %d bytes' % size))
    for size, sets in ((1, 'A'), (2, 'AB'), (4, 'ABC' if thorough else 'A')):
        for name in sets:
            out.append(Shard(MOD, 'flags_roundtrip', 'flags/%d-%s' % (size, name), {'SIZE': size, 'FLAGS': name},
                             600 if size == 4 and name != 'A' else 120, bounds='all %d-bit words, 4 named flags (set %s)' % (8 * size, name)))
    bits = 64 if thorough else 40
    out.append(Shard(MOD, 'ssh_mpint', 'ssh_mpint/nonneg', {'LO': 0, 'HI': 2 ** bits}, 400 if thorough else 60,
                     bounds='all 0 <= v < 2^%d: round trip and minimal RFC 4251 encoding' % bits))
    out.append(Shard(MOD, 'ssh_mpint', 'ssh_mpint/neg', {'LO': -2 ** bits, 'HI': 0}, 400 if thorough else 60,
                     bounds='all -2^%d <= v < 0: round trip' % bits))
    for length in range(0, 10 if thorough else 7):
        out.append(Shard(MOD, 'ssh_mpint_parse', 'ssh_mpint_parse/%d' % length, {'LEN': length}, 40,
                         bounds='all mpint bodies of %d bytes' % length))
    for length in (1, 2, 3, 4, 5) + ((8,) if thorough else ()):
        for order in ('BIG_ENDIAN', 'NETWORK'):
            out.append(Shard(MOD, 'fixed_mpint', 'fixed_mpint/%d-%s' % (length, order),
                             {'LEN': length, 'ORDER': order}, 400 if length == 8 else 60,
                             bounds='all 0 <= v < 2^(8*%d+8), fixed length %d' % (length, length)))
    for size, use_ms in ((4, False), (8, False), (8, True)):
        for aware in ('naive', 'aware', 'aware-dateutil'):
            for date in (DATES_THOROUGH if thorough else DATES_QUICK):
                if size == 4 and date[0] >= 2106:
                    continue
                times = [None] if aware == 'naive' else [[0, 0, 0, 0], [12, 34, 56, 789], [23, 59, 59, 999]]
                for tod in times:
                    par = {'SIZE': size, 'MS': use_ms, 'AWARE': aware != 'naive', 'DATE': list(date), 'TIME': tod}
                    if aware == 'aware-dateutil':
                        par['TZINFO'] = 'dateutil'
                    label = 'timestamp_compose/%d-%s-%s-%04d%02d%02d' % ((size, 'ms' if use_ms else 's', aware) +
                                                                        tuple(date))
                    when = 'every time of day (h, m, s, ms)' if tod is None else \
                        'time of day %02d:%02d:%02d.%03d' % tuple(tod)
                    if tod:
                        label += '-%02d%02d%02d' % tuple(tod[:3])
                    out.append(Shard(MOD, 'timestamp_compose', label, par, 120,
                                     bounds=when + ' on %04d-%02d-%02d; all POSIX clock configurations: standard '
                                     'offset -12h..+14h, DST 15min..2h east of it (15 min grid), DST in effect or '
                                     'not, altzone reflecting DST or not' % tuple(date)))
        out.append(Shard(MOD, 'timestamp_parse', 'timestamp_parse/%d-%s' % (size, 'ms' if use_ms else 's'),
                         {'SIZE': size, 'MS': use_ms}, 90,
                         bounds='all raw values below 2^32 s plus the all-ones sentinel'))
    for size in (4, 8):
        out.append(Shard(MOD, 'timestamp_none', 'timestamp_none/%d' % size, {'SIZE': size}, 20,
                         bounds='None maps to all-ones'))
    out.append(Shard(MOD, 'timestamp_zones', 'timestamp_zones', {}, kind='concrete',
                     bounds='%d zoneinfo zones x %d instants x naive/aware x 3 encodings, enumerated natively' % (
                         len(ZONES), len(INSTANTS))))
    return out
