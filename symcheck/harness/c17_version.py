# -*- coding: utf-8 -*-
"""C17 - TlsProtocolVersion is a strict total order consistent with equality and hashing.

F-style harness: the real methods of TlsProtocolVersion (__lt__, __eq__, the total_ordering-derived
operators, major, minor, is_draft, is_google_experimental) run on instances created with
object.__new__ whose `version` attribute is a stand-in carrying a *symbolic* code, constrained to
the codes of the current TlsVersion table (one disjunction, X4).  `version == TlsVersion.X`
comparisons inside the library compare the stand-in with real members: the stand-in's __eq__ maps
that to `code == X.value.code`, which is sound because codes are unique per member (checked
concretely by side condition `codes_unique`).
"""
from cryptodatahub.tls.version import TlsVersion

from cryptoparser.tls.version import TlsProtocolVersion

from symcheck.api import reach
from symcheck.runner import Shard

MOD = __name__
P = {}

CODES = [member.value.code for member in TlsVersion]
TLS1_3 = TlsVersion.TLS1_3.value.code
FINAL = [TlsVersion.SSL2.value.code, TlsVersion.SSL3.value.code, TlsVersion.TLS1.value.code,
         TlsVersion.TLS1_1.value.code, TlsVersion.TLS1_2.value.code]


class _Value(object):  # pylint: disable=too-few-public-methods
    def __init__(self, code):
        self.code = code


class _Member(object):
    """stands in for a TlsVersion member with a symbolic code"""

    def __init__(self, code):
        self.value = _Value(code)
        self.name = 'SYMBOLIC'

    def __eq__(self, other):
        if isinstance(other, _Member):
            return self.value.code == other.value.code
        if isinstance(other, TlsVersion):
            return self.value.code == other.value.code
        return NotImplemented

    def __ne__(self, other):
        res = self.__eq__(other)
        if res is NotImplemented:
            return res
        return not res

    def __hash__(self):
        return hash(self.value.code)


def _version(code):
    obj = object.__new__(TlsProtocolVersion)
    object.__setattr__(obj, 'version', _Member(code))
    return obj


def _known(code):
    return any([code == known for known in CODES])  # pylint: disable=use-a-generator


def trichotomy(code_a: int, code_b: int) -> bool:
    """post: _"""
    if not (_known(code_a) and _known(code_b)):
        return True
    ver_a, ver_b = _version(code_a), _version(code_b)
    less, equal, greater = ver_a < ver_b, ver_a == ver_b, ver_a > ver_b
    count = (1 if less else 0) + (1 if equal else 0) + (1 if greater else 0)
    reach()
    if count != 1:
        return False
    if equal != (code_a == code_b):
        return False
    # derived operators and the mirrored comparison agree
    if (ver_a <= ver_b) != (less or equal) or (ver_a >= ver_b) != (greater or equal):
        return False
    if (ver_b > ver_a) != less or (ver_b < ver_a) != greater:
        return False
    if (ver_a != ver_b) == equal:
        return False
    return True


def transitivity(code_a: int, code_b: int, code_c: int) -> bool:
    """post: _"""
    if not (_known(code_a) and _known(code_b) and _known(code_c)):
        return True
    ver_a, ver_b, ver_c = _version(code_a), _version(code_b), _version(code_c)
    if ver_a < ver_b and ver_b < ver_c:
        reach()
        return bool(ver_a < ver_c)
    return True


def _rank(code):
    """the order the property prescribes: (class, number); experiments and drafts both between 1.2 and 1.3"""
    if code == TLS1_3:
        return 2
    if code // 256 in (0x7e, 0x7f):
        return 1
    return 0


def chain(code_a: int, code_b: int) -> bool:
    """post: _"""
    if not (_known(code_a) and _known(code_b)):
        return True
    ver_a, ver_b = _version(code_a), _version(code_b)
    less = ver_a < ver_b
    reach()
    rank_a, rank_b = _rank(code_a), _rank(code_b)
    if rank_a != rank_b:
        return less == (rank_a < rank_b)
    if rank_a == 0:
        # SSL 2.0 (0x0002) < SSL 3.0 (0x0300) < TLS 1.0 (0x0301) < 1.1 < 1.2: numeric order of the codes
        return less == (code_a < code_b)
    if code_a // 256 == 0x7f and code_b // 256 == 0x7f:
        return less == (code_a % 256 < code_b % 256)   # drafts ordered by draft number
    if code_a // 256 == 0x7e and code_b // 256 == 0x7e:
        return less == (code_a % 256 < code_b % 256)
    return True   # experiment versus draft: any order, as long as it is total (trichotomy/transitivity)


def hash_consistent(code_a: int, code_b: int) -> bool:
    """post: _"""
    if not (_known(code_a) and _known(code_b)):
        return True
    ver_a, ver_b = _version(code_a), _version(code_b)
    reach()
    if ver_a == ver_b:
        return hash(ver_a) == hash(ver_b)
    return True


def codes_unique():
    """concrete side condition behind the stand-in: one code per member, real objects agree with the stand-in"""
    problems = []
    if len(set(CODES)) != len(CODES):
        problems.append('TlsVersion codes are not unique: %r' % (CODES,))
    members = list(TlsVersion)
    real = [TlsProtocolVersion(member) for member in members]
    for idx_a, ver_a in enumerate(real):
        for idx_b, ver_b in enumerate(real):
            sym_a, sym_b = _version(CODES[idx_a]), _version(CODES[idx_b])
            if (ver_a < ver_b) != (sym_a < sym_b) or (ver_a == ver_b) != (sym_a == sym_b):
                problems.append('stand-in disagrees with real members for %s, %s' % (
                    members[idx_a].name, members[idx_b].name))
            if ver_a == ver_b and hash(ver_a) != hash(ver_b):
                problems.append('equal versions hash differently: %s' % members[idx_a].name)
    ordered = sorted(real)
    if ordered and ordered[-1].version != TlsVersion.TLS1_3:
        problems.append('max() of all versions is %s' % ordered[-1].version.name)
    return problems


def sample_args(rng, kwargs):
    """differential runs: codes drawn from the table"""
    return {name: rng.choice(CODES) for name in kwargs}


def shards(tier, seed):  # pylint: disable=unused-argument
    table = '%d members of TlsVersion in the current tree' % len(CODES)
    return [
        Shard(MOD, 'trichotomy', 'trichotomy', {}, 120, bounds='all ordered pairs of the ' + table),
        Shard(MOD, 'transitivity', 'transitivity', {}, 240, bounds='all ordered triples of the ' + table),
        Shard(MOD, 'chain', 'chain', {}, 120, bounds='all ordered pairs: prescribed chain SSL2<SSL3<1.0<1.1<1.2<'
              'experiments/drafts<1.3, drafts by number'),
        Shard(MOD, 'hash_consistent', 'hash', {}, 120, bounds='all ordered pairs: a == b implies hash(a) == hash(b)'),
        Shard(MOD, 'codes_unique', 'codes_unique', {}, kind='concrete',
              bounds='all %d x %d real member pairs evaluated natively against the stand-in' % (len(CODES), len(CODES))),
    ]
