# -*- coding: utf-8 -*-
"""C02 - only NotEnoughData, TooMuchData, InvalidValue, InvalidType escape a parse entry point"""
import json
import os

from symcheck.harness import registry, windows
from symcheck.runner import Shard

MOD = __name__
CALIBRATION = os.path.join(registry.VERIF, 'seeds', 'calibration.json')

# text formats: a concrete required prefix so that the interesting region is reachable with few symbolic bytes
PREFIXES = [
    ('cryptoparser.ssh.subprotocol.SshProtocolMessage', b'SSH-2.0-', 3),
    ('cryptoparser.ssh.subprotocol.SshProtocolMessage', b'SSH-2.0-OpenSSH_', 2),
    ('cryptoparser.dnsrec.txt.DnsRecordTxtValueSpf', b'v=spf1 ip4:', 2),
    ('cryptoparser.dnsrec.txt.DnsRecordTxtValueSpf', b'v=spf1 a', 2),
    ('cryptoparser.dnsrec.txt.DnsRecordTxtValueDmarc', b'v=DMARC1; p=none; ', 2),
    ('cryptoparser.dnsrec.txt.DnsRecordTxtValueMtaSts', b'v=STSv1; id=', 2),
    ('cryptoparser.httpx.header.HttpHeaderFieldSTS', b'Strict-Transport-Security: max-age=', 2),
    ('cryptoparser.httpx.header.HttpHeaderFieldPragma', b'Pragma: ', 2),
    ('cryptoparser.httpx.header.HttpHeaderFieldSetCookie', b'Set-Cookie: a=b; ', 2),
    ('cryptoparser.httpx.header.HttpHeaderFieldDate', b'Date: ', 2),
    ('cryptoparser.httpx.header.HttpHeaderFieldContentType', b'Content-Type: text/', 2),
    # binary formats whose interesting field sits behind flag words that explode symbolically
    ('cryptoparser.tls.mysql.MySQLHandshakeSslRequest', b'\x00\x08', 3),
    ('cryptoparser.tls.mysql.MySQLHandshakeSslRequest', b'\x00\x0a\x00\x00', 4),
]


def load_calibration():
    if os.path.exists(CALIBRATION):
        with open(CALIBRATION) as handle:
            return json.load(handle)
    return {}


def shards(tier, seed):
    out = windows.unconstrained_shards('c02', tier, load_calibration())
    out += windows.window_shards('c02', tier, seed, per_seed=2)
    for pidx, (name, prefix, length) in enumerate(PREFIXES):
        if registry.resolve(name) is None:
            continue
        length += 1 if tier == 'thorough' else 0
        short = name.replace('cryptoparser.', '')
        out.append(Shard(windows.MOD, 'unconstrained', 'prefix/%s/%d' % (short, pidx),
                         {'MODE': 'c02', 'CLASS': name, 'L': length, 'PREFIX': prefix.hex()},
                         timeout=300 if tier == 'thorough' else 60,
                         bounds='%r followed by every byte string of length <= %d' % (prefix, length),
                         group='prefix/%s' % short))
    # the other entry points share _parse; they differ in the type of the buffer (bytearray) and the exact-size check
    extra = []
    seen = set()
    for shard in out:
        if shard.fn in ('window1', 'window1a') and shard.params['POS'] == 0:
            cls = registry.resolve(shard.params['CLASS'])
            # classes that inherit one and the same _parse are represented once in the quick tier
            key = shard.params['CLASS'] if tier == 'thorough' else getattr(cls._parse, '__func__', cls._parse)  # pylint: disable=protected-access
            if key in seen:
                continue
            seen.add(key)
            for entry in ('parse_mutable',) + (('parse_exact_size',) if tier == 'thorough' else ()):
                extra.append(Shard(windows.MOD, shard.fn, shard.label.replace('w/', 'x-%s/' % entry),
                                   dict(shard.params, ENTRY=entry), timeout=shard.timeout, bounds=shard.bounds +
                                   ' through ' + entry, group='x/' + shard.params['CLASS']))
    return out + extra
