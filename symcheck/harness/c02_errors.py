# -*- coding: utf-8 -*-
"""C02 - only NotEnoughData, TooMuchData, InvalidValue, InvalidType escape a parse entry point"""
import json
import os

from symcheck.harness import registry, windows
from symcheck.runner import Shard

MOD = __name__
CALIBRATION = os.path.join(registry.VERIF, 'seeds', 'calibration.json')

# text formats: a concrete required prefix so that the interesting region is reachable with few symbolic bytes
PREFIXES = [
    ('cryptoparser.ssh.subprotocol.SshProtocolMessage', b'SSH-2.0-', 3),
    ('cryptoparser.ssh.subprotocol.SshProtocolMessage', b'SSH-2.0-OpenSSH_', 2),
    ('cryptoparser.dnsrec.txt.DnsRecordTxtValueSpf', b'v=spf1 ip4:', 2),
    ('cryptoparser.dnsrec.txt.DnsRecordTxtValueSpf', b'v=spf1 a', 2),
    ('cryptoparser.dnsrec.txt.DnsRecordTxtValueDmarc', b'v=DMARC1; p=none; ', 2),
    ('cryptoparser.dnsrec.txt.DnsRecordTxtValueMtaSts', b'v=STSv1; id=', 2),
    ('cryptoparser.httpx.header.HttpHeaderFieldSTS', b'Strict-Transport-Security: max-age=', 2),
    ('cryptoparser.httpx.header.HttpHeaderFieldPragma', b'Pragma: ', 2),
    ('cryptoparser.httpx.header.HttpHeaderFieldSetCookie', b'Set-Cookie: a=b; ', 2),
    ('cryptoparser.httpx.header.HttpHeaderFieldDate', b'Date: ', 2),
    ('cryptoparser.httpx.header.HttpHeaderFieldContentType', b'Content-Type: text/', 2),
    # binary formats whose interesting field sits behind flag words that explode symbolically
    ('cryptoparser.tls.mysql.MySQLHandshakeSslRequest', b'\x00\x08', 3),
    ('cryptoparser.tls.mysql.MySQLHandshakeSslRequest', b'\x00\x0a\x00\x00', 4),
    # values handed to third-party parsers (asn1crypto, idna) behind a long concrete prefix
    ('cryptoparser.ssh.key.SshHostPublicKeyVariant',
     b'\x00\x00\x00\x13ecdsa-sha2-nistp256\x00\x00\x00\x08nistp256\x00\x00\x00', 3),
    ('cryptoparser.ssh.key.SshHostPublicKeyVariant', b'\x00\x00\x00\x0ex509v3-ssh-rsa\x00\x00\x00', 5),
    ('cryptoparser.ssh.key.SshHostPublicKeyVariant', b'\x00\x00\x00\x0ex509v3-ssh-rsa\x00\x00\x00\x01\x00\x00\x00', 3),
    ('cryptoparser.tls.extension.TlsExtensionsClient', b'\x00\x0d\x00\x00\x00\x09\x00\x07\x00\x00\x04a.', 1, b'b'),
    ('cryptoparser.dnsrec.record.DnsNameUncompressed', b'\x05xn--', 1, b'\x00'),
    ('cryptoparser.dnsrec.record.DnsNameUncompressed', b'\x01a\x06xn--', 2, b'\x00'),
]

# hostile but well-formed text values: magnitudes that overflow a C long / a datetime, dates at the ends of the calendar
HOSTILE = [
    ('cryptoparser.httpx.header.HttpHeaderFieldValueDate', [
        b'9999999999999999999999999', b'Fri, 31 Dec 9999 23:59:59 -0100', b'Mon, 01 Jan 0001 00:00:00 +0100',
        b'Fri, 31 Dec 9999 23:59:59 GMT', b'Mon, 01 Jan 0001 00:00:00 GMT', b'1e400', b'99999999999999', b'0',
        b'Thu, 01 Jan 1970 00:00:00 +9999', b'Thu, 01 Jan 1970 00:00:00 -9999']),
    ('cryptoparser.httpx.header.HttpHeaderFieldValueExpires', [
        b'Fri, 31 Dec 9999 23:59:59 -0100', b'Mon, 01 Jan 0001 00:00:00 +0100', b'0', b'-1']),
    ('cryptoparser.httpx.header.HttpHeaderFieldValueLastModified', [b'Fri, 31 Dec 9999 23:59:59 -0100']),
    ('cryptoparser.httpx.header.HttpHeaderFields', [
        b'Expires: Fri, 31 Dec 9999 23:59:59 -0100\r\n\r\n', b'Date: Mon, 01 Jan 0001 00:00:00 +0100\r\n\r\n',
        b'Age: 99999999999999999999999999\r\n\r\n', b'Strict-Transport-Security: max-age=' + 40 * b'9' + b'\r\n\r\n',
        b'NEL: {"report_to":"a","max_age":1e300}\r\n\r\n',
        b'Set-Cookie: a=b; Expires=Fri, 31 Dec 9999 23:59:59 -0100\r\n\r\n',
        b'Set-Cookie: a=b; Max-Age=' + 40 * b'9' + b'\r\n\r\n']),
    ('cryptoparser.httpx.header.HttpHeaderFieldValueNetworkErrorLogging', [
        b'{"report_to":"a","max_age":1e300}', b'{"report_to":"a","max_age":-1e300}', b'{"report_to":"a","max_age":1e999}',
        b'{"report_to":"a","max_age":NaN}', b'{"report_to":"a","max_age":' + 40 * b'9' + b'}',
        b'{"report_to":"a","max_age":1,"success_fraction":1e999}', b'{"report_to":"a","max_age":1,"failure_fraction":"x"}',
        b'{"report_to":"a","max_age":"1"}', b'{"report_to":1,"max_age":1}', b'{"report_to":"a","max_age":true}']),
    ('cryptoparser.httpx.header.HttpHeaderFieldValueAge', [40 * b'9', b'-1', b'1e9']),
    ('cryptoparser.httpx.header.HttpHeaderFieldValueSTS', [b'max-age=' + 40 * b'9', b'max-age=-1', b'max-age=1e9']),
    ('cryptoparser.httpx.header.HttpHeaderFieldValueSetCookie', [
        b'a=b; Max-Age=' + 40 * b'9', b'a=b; Expires=Fri, 31 Dec 9999 23:59:59 -0100', b'a=b; Expires=' + 30 * b'9']),
    ('cryptoparser.dnsrec.txt.DnsRecordTxtValueDmarc', [
        b'v=DMARC1; p=none; ri=' + 40 * b'9', b'v=DMARC1; p=none; pct=' + 40 * b'9', b'v=DMARC1; p=none; pct=-1']),
    ('cryptoparser.dnsrec.txt.DnsRecordTxtValueSpf', [
        b'v=spf1 ip4:1.2.3.4/' + 40 * b'9', b'v=spf1 a:example.com/' + 40 * b'9', b'v=spf1 ip6:::1/' + 40 * b'9']),
]


def hostile_values():
    """concrete: magnitudes and calendar boundaries no window reaches from a seed; only the four parse errors escape"""
    from symcheck.api import parse_errors  # pylint: disable=import-outside-toplevel
    allowed = parse_errors()
    problems = []
    for name, values in HOSTILE:
        cls = registry.resolve(name)
        if cls is None:
            continue
        for value in values:
            for entry in ('parse_exact_size', 'parse_immutable'):
                try:
                    getattr(cls, entry)(value)
                except allowed:
                    pass
                except Exception as exc:  # pylint: disable=broad-except
                    problems.append('%s.%s(%r): %s: %s' % (cls.__name__, entry, value[:60], type(exc).__name__,
                                                           str(exc)[:80]))
                    break
    return problems


def load_calibration():
    if os.path.exists(CALIBRATION):
        with open(CALIBRATION) as handle:
            return json.load(handle)
    return {}


def shards(tier, seed):
    out = windows.unconstrained_shards('c02', tier, load_calibration())
    out += windows.window_shards('c02', tier, seed, per_seed=2)
    for pidx, entry in enumerate(PREFIXES):
        name, prefix, length = entry[:3]
        if registry.resolve(name) is None:
            continue
        par = {'MODE': 'c02', 'CLASS': name, 'L': length, 'PREFIX': prefix.hex()}
        if len(entry) > 3:
            par['SUFFIX'] = entry[3].hex()
            bounds = '%r, every byte string of length %d, %r' % (prefix, length, entry[3])
        else:
            length += 1 if tier == 'thorough' else 0
            par['L'] = length
            bounds = '%r followed by every byte string of length <= %d' % (prefix, length)
        short = name.replace('cryptoparser.', '')
        out.append(Shard(windows.MOD, 'unconstrained', 'prefix/%s/%d' % (short, pidx), par,
                         timeout=300 if tier == 'thorough' else 60, bounds=bounds, group='prefix/%s' % short))
    out.append(Shard(MOD, 'hostile_values', 'hostile_values', {}, kind='concrete',
                     bounds='%d well-formed text values with overflowing magnitudes or dates at the ends of the calendar '
                            '(natively)' % sum(len(values) for _, values in HOSTILE)))
    # the other entry points share _parse; they differ in the type of the buffer (bytearray) and the exact-size check
    extra = []
    seen = set()
    for shard in out:
        if shard.fn in ('window1', 'window1a') and shard.params['POS'] == 0:
            cls = registry.resolve(shard.params['CLASS'])
            # classes that inherit one and the same _parse are represented once in the quick tier
            key = shard.params['CLASS'] if tier == 'thorough' else getattr(cls._parse, '__func__', cls._parse)  # pylint: disable=protected-access
            if key in seen:
                continue
            seen.add(key)
            for entry in ('parse_mutable',) + (('parse_exact_size',) if tier == 'thorough' else ()):
                extra.append(Shard(windows.MOD, shard.fn, shard.label.replace('w/', 'x-%s/' % entry),
                                   dict(shard.params, ENTRY=entry), timeout=shard.timeout, bounds=shard.bounds +
                                   ' through ' + entry, group='x/' + shard.params['CLASS']))
    return out + extra
