# -*- coding: utf-8 -*-
"""C01 - compose then parse returns the same message and consumes every byte.

K: objects built through the real constructors from symbolic scalars / opaque bytes; enum-valued
   arguments are picked from the member list by a symbolic index (the engine forks per member).
P: objects obtained by parsing accepted inputs: the 'rt' mode of the seeded windows.
"""
from symcheck import api
from symcheck.api import deep_eq, reach
from symcheck.harness import windows
from symcheck.runner import Shard

MOD = __name__
P = {}


def _pick(members, index):
    members = list(members)
    return members[index % len(members)]


def _b_tls_record(a, b, c, data, flag):
    from cryptodatahub.tls.version import TlsVersion
    from cryptoparser.tls.record import TlsRecord
    from cryptoparser.tls.subprotocol import TlsContentType
    from cryptoparser.tls.version import TlsProtocolVersion
    versions = [TlsVersion.SSL3, TlsVersion.TLS1, TlsVersion.TLS1_2, TlsVersion.TLS1_3, TlsVersion.TLS1_3_DRAFT_28]
    return TlsRecord(data, TlsProtocolVersion(_pick(versions, a)), _pick(TlsContentType, b))


def _b_tls_alert(a, b, c, data, flag):
    from cryptoparser.tls.subprotocol import TlsAlertDescription, TlsAlertLevel, TlsAlertMessage
    if not (0 <= a < len(list(TlsAlertDescription)) and 0 <= b < len(list(TlsAlertLevel))):
        return None
    return TlsAlertMessage(list(TlsAlertLevel)[b], list(TlsAlertDescription)[a])


def _b_tls_ccs(a, b, c, data, flag):
    from cryptoparser.tls.subprotocol import TlsChangeCipherSpecMessage
    return TlsChangeCipherSpecMessage()


def _b_tls_ske(a, b, c, data, flag):
    from cryptoparser.tls.subprotocol import TlsHandshakeServerKeyExchange
    return TlsHandshakeServerKeyExchange(data)


def _b_tls_certificate(a, b, c, data, flag):
    from cryptoparser.tls.subprotocol import TlsCertificate, TlsCertificates, TlsHandshakeCertificate
    if len(data) < 1:
        return None
    chain = [TlsCertificate(data)]
    if flag:
        chain.append(TlsCertificate(data[:1]))
    return TlsHandshakeCertificate(TlsCertificates(chain))


def _b_tls_cert_status(a, b, c, data, flag):
    from cryptoparser.tls.subprotocol import TlsCertificateStatusType, TlsHandshakeCertificateStatus
    if len(data) < 1:
        return None
    return TlsHandshakeCertificateStatus(TlsCertificateStatusType.OCSP, data)


def _b_tls_ext_unparsed(a, b, c, data, flag):
    from cryptoparser.tls.extension import TlsExtensionUnparsed
    from cryptoparser.tls.grease import TlsInvalidTypeTwoByte
    if not 0 <= a < 65536:
        return None
    return TlsExtensionUnparsed(TlsInvalidTypeTwoByte(a), data)


def _b_tls_ext_unparsed_member(a, b, c, data, flag):
    # the constructor also admits members of TlsExtensionType (validator instance_of)
    from cryptoparser.tls.extension import TlsExtensionType, TlsExtensionUnparsed
    return TlsExtensionUnparsed(_pick(TlsExtensionType, a), data)


def _b_tls_ext_padding(a, b, c, data, flag):
    from cryptoparser.tls.extension import TlsExtensionPadding
    if not 0 <= a < 20:
        return None
    return TlsExtensionPadding(a)


def _b_tls_ext_record_size(a, b, c, data, flag):
    from cryptoparser.tls.extension import TlsExtensionRecordSizeLimit
    if not 0 <= a < 65536:
        return None
    return TlsExtensionRecordSizeLimit(a)


def _b_tls_ext_session_ticket(a, b, c, data, flag):
    from cryptoparser.tls.extension import TlsExtensionSessionTicket
    return TlsExtensionSessionTicket(bytearray(data))


def _b_tls_ext_reneg(a, b, c, data, flag):
    from cryptoparser.tls.extension import TlsExtensionRenegotiationInfo, TlsRenegotiatedConnection
    return TlsExtensionRenegotiationInfo(TlsRenegotiatedConnection(list(data)))


def _b_tls_ext_groups(a, b, c, data, flag):
    from cryptodatahub.tls.algorithm import TlsNamedCurve
    from cryptoparser.tls.extension import TlsExtensionEllipticCurves
    curves = [_pick(TlsNamedCurve, a)]
    if flag:
        curves.append(_pick(TlsNamedCurve, P.get('B2', 1)))
    return TlsExtensionEllipticCurves(curves)


def _b_tls_ext_point_formats(a, b, c, data, flag):
    from cryptodatahub.tls.algorithm import TlsECPointFormat
    from cryptoparser.tls.extension import TlsExtensionECPointFormats
    return TlsExtensionECPointFormats([_pick(TlsECPointFormat, a)] + ([_pick(TlsECPointFormat, P.get('B2', 1))] if flag else []))


def _b_tls_ext_versions(a, b, c, data, flag):
    from cryptodatahub.tls.version import TlsVersion
    from cryptoparser.tls.extension import TlsExtensionSupportedVersionsClient
    from cryptoparser.tls.version import TlsProtocolVersion
    versions = [TlsProtocolVersion(_pick(TlsVersion, a))]
    if flag:
        versions.append(TlsProtocolVersion(_pick(TlsVersion, P.get('B2', 1))))
    return TlsExtensionSupportedVersionsClient(versions)


def _b_tls_ext_sigalgs(a, b, c, data, flag):
    from cryptodatahub.tls.algorithm import TlsSignatureAndHashAlgorithm
    from cryptoparser.tls.extension import TlsExtensionSignatureAlgorithms
    return TlsExtensionSignatureAlgorithms([_pick(TlsSignatureAndHashAlgorithm, a)] + (
        [_pick(TlsSignatureAndHashAlgorithm, P.get('B2', 1))] if flag else []))


def _b_tls_ext_alpn(a, b, c, data, flag):
    from cryptodatahub.tls.algorithm import TlsProtocolName
    from cryptoparser.tls.extension import TlsExtensionApplicationLayerProtocolNegotiation
    return TlsExtensionApplicationLayerProtocolNegotiation([_pick(TlsProtocolName, a)] + (
        [_pick(TlsProtocolName, P.get('B2', 1))] if flag else []))


def _b_tls_ext_key_share(a, b, c, data, flag):
    from cryptodatahub.tls.algorithm import TlsNamedCurve
    from cryptoparser.tls.extension import TlsExtensionKeyShareClient, TlsKeyShareEntry
    if len(data) < 1:
        return None
    return TlsExtensionKeyShareClient([TlsKeyShareEntry(_pick(TlsNamedCurve, a), data)])


def _b_tls_ext_sni(a, b, c, data, flag):
    from cryptoparser.tls.extension import TlsExtensionServerNameClient
    for char in data:
        if not (97 <= char <= 122 or 48 <= char <= 57):
            return None
    if not 1 <= len(data) <= 3:
        return None
    return TlsExtensionServerNameClient(data.decode('ascii') + ('.example.com' if flag else ''))


def _b_tls_cipher_suites(a, b, c, data, flag):
    from cryptodatahub.tls.algorithm import TlsCipherSuite
    from cryptoparser.tls.subprotocol import TlsCipherSuiteVector
    return TlsCipherSuiteVector([_pick(TlsCipherSuite, a)] + ([_pick(TlsCipherSuite, P.get('B2', 1))] if flag else []))


def _b_tls_session_id(a, b, c, data, flag):
    from cryptoparser.tls.subprotocol import TlsSessionIdVector
    return TlsSessionIdVector(list(data))


def _b_tls_server_hello(a, b, c, data, flag):
    import datetime
    from cryptodatahub.tls.algorithm import TlsCipherSuite
    from cryptodatahub.tls.version import TlsVersion
    from cryptoparser.tls.subprotocol import (
        TlsHandshakeHelloRandom, TlsHandshakeHelloRandomBytes, TlsHandshakeServerHello, TlsSessionIdVector,
    )
    from cryptoparser.tls.version import TlsProtocolVersion
    if len(data) > 2:
        return None
    random = TlsHandshakeHelloRandom(datetime.datetime(2020, 1, 2, 3, 4, 5), TlsHandshakeHelloRandomBytes(
        list(data) + [7] * (28 - len(data))))
    return TlsHandshakeServerHello(
        protocol_version=TlsProtocolVersion(_pick([TlsVersion.TLS1, TlsVersion.TLS1_2], a)),
        random=random, session_id=TlsSessionIdVector(list(data)), cipher_suite=_pick(TlsCipherSuite, P.get('B2', 1) + b % 2),
    )


def _b_tls_hello_random(a, b, c, data, flag):
    """gmt_unix_time has a resolution of one second: the microsecond of the constructor argument is symbolic"""
    import datetime  # pylint: disable=import-outside-toplevel
    from cryptoparser.tls.subprotocol import (  # pylint: disable=import-outside-toplevel
        TlsHandshakeHelloRandom, TlsHandshakeHelloRandomBytes
    )
    if not (a < 1000000 and (b == 0 or b == 59)):
        return None
    if len(data) > 1:
        return None
    return TlsHandshakeHelloRandom(datetime.datetime(2020, 1, 2, 3, 4, b, a),
                                   TlsHandshakeHelloRandomBytes(bytearray(data + (28 - len(data)) * b'\x07')))


def _b_ssl_error(a, b, c, data, flag):
    from cryptoparser.tls.record import SslRecord
    from cryptoparser.tls.subprotocol import SslErrorMessage, SslErrorType
    return SslRecord(SslErrorMessage(_pick(SslErrorType, a)))


def _b_ssh_dh_init(a, b, c, data, flag):
    from cryptoparser.ssh.subprotocol import SshDHKeyExchangeInit
    return SshDHKeyExchangeInit(data)


def _b_ssh_gex_init(a, b, c, data, flag):
    from cryptoparser.ssh.subprotocol import SshDHGroupExchangeInit
    return SshDHGroupExchangeInit(data)


def _b_ssh_gex_request(a, b, c, data, flag):
    from cryptoparser.ssh.subprotocol import SshDHGroupExchangeRequest
    if not (0 <= a < 2 ** 32 and 0 <= b < 2 ** 32 and 0 <= c < 2 ** 32):
        return None
    return SshDHGroupExchangeRequest(a, b, c)


def _b_ssh_gex_group(a, b, c, data, flag):
    from cryptoparser.ssh.subprotocol import SshDHGroupExchangeGroup
    return SshDHGroupExchangeGroup(data, data[:1])


def _b_ssh_unimplemented(a, b, c, data, flag):
    from cryptoparser.ssh.subprotocol import SshUnimplementedMessage
    if not 0 <= a < 2 ** 32:
        return None
    return SshUnimplementedMessage(a)


def _b_ssh_disconnect(a, b, c, data, flag):
    from cryptoparser.ssh.subprotocol import SshDisconnectMessage, SshReasonCode
    for char in data:
        if not 32 <= char < 127:
            return None
    return SshDisconnectMessage(_pick(SshReasonCode, a), data.decode('ascii'), 'en-US' if flag else 'US')


def _b_ssh_record(a, b, c, data, flag):
    from cryptoparser.ssh.record import SshRecordKexDH
    from cryptoparser.ssh.subprotocol import SshDHKeyExchangeInit
    return SshRecordKexDH(SshDHKeyExchangeInit(data))


def _b_dns_ds(a, b, c, data, flag):
    from cryptodatahub.dnsrec.algorithm import DnsSecAlgorithm, DnsSecDigestType
    from cryptoparser.dnsrec.record import DnsRecordDs
    if not 0 <= a < 65536:
        return None
    if not (0 <= b < len(list(DnsSecAlgorithm)) and 0 <= c < 2):
        return None
    return DnsRecordDs(a, list(DnsSecAlgorithm)[b], _pick(DnsSecDigestType, c + P.get('B2', 0)), data)


def _b_dns_mx(a, b, c, data, flag):
    from cryptoparser.dnsrec.record import DnsNameUncompressed, DnsRecordMx
    if not 0 <= a < 65536:
        return None
    for char in data:
        if not 97 <= char <= 122:
            return None
    if not 1 <= len(data) <= 3:
        return None
    labels = [data.decode('ascii')] + (['example', 'com'] if flag else [])
    return DnsRecordMx(a, DnsNameUncompressed(labels))


def _b_dns_txt(a, b, c, data, flag):
    from cryptoparser.dnsrec.record import DnsRecordTxt
    for char in data:
        if not 32 <= char < 127:
            return None
    return DnsRecordTxt(data.decode('ascii'))


def _b_dns_rrtype_private(a, b, c, data, flag):
    from cryptoparser.dnsrec.record import DnsRrTypePrivate
    if not 65280 <= a <= 65534:
        return None
    return DnsRrTypePrivate(a)


def _b_mysql_record(a, b, c, data, flag):
    from cryptoparser.tls.mysql import MySQLRecord
    if not 0 <= a < 256:
        return None
    return MySQLRecord(a, data)


def _b_tpkt(a, b, c, data, flag):
    from cryptoparser.tls.rdp import TPKT
    return TPKT(3, data)


def _b_cotp(a, b, c, data, flag):
    from cryptoparser.tls.rdp import COTPConnectionConfirm, COTPConnectionRequest
    if not (0 <= a < 65536 and 0 <= b < 65536):
        return None
    cls = COTPConnectionConfirm if flag else COTPConnectionRequest
    return cls(src_ref=a, user_data=data, dst_ref=b, class_option=0)    # only class 0 is constructible


def _b_openvpn(a, b, c, data, flag):
    from cryptoparser.tls.openvpn import OpenVpnPacketControlV1, OpenVpnPacketHardResetClientV2
    if not (0 <= a < 2 ** P.get('SIDBITS', 32) and 0 <= b < 2 ** 32 and 0 <= c < 2 ** 32 - 7):
        return None
    if flag:
        return OpenVpnPacketHardResetClientV2(a, b)
    return OpenVpnPacketControlV1(a, [c], c + 7, b, data)


def _b_openvpn_tcp(a, b, c, data, flag):
    from cryptoparser.tls.openvpn import OpenVpnPacketWrapperTcp
    return OpenVpnPacketWrapperTcp(data)


BUILDERS = {name[3:]: fn for name, fn in list(globals().items()) if name.startswith('_b_')}


def banner_lengths():
    """concrete: identification strings of 250..255 bytes (RFC 4253 maximum) compose and parse back"""
    from cryptoparser.ssh.subprotocol import SshProtocolMessage  # pylint: disable=import-outside-toplevel
    from cryptoparser.ssh.version import SshProtocolVersion, SshSoftwareVersionUnparsed, SshVersion  # pylint: disable=import-outside-toplevel
    problems = []
    for total in range(250, 256):
        for comment in (None, 'c'):
            software = 'x' * (total - 8 - 2 - (2 if comment else 0))
            obj = SshProtocolMessage(SshProtocolVersion(SshVersion.SSH2, 0), SshSoftwareVersionUnparsed(software),
                                     comment)
            composed = bytes(obj.compose())
            try:
                parsed, size = SshProtocolMessage.parse_immutable(composed)
            except Exception as exc:  # pylint: disable=broad-except
                problems.append('banner of %d bytes composes but is rejected: %s' % (len(composed), type(exc).__name__))
                continue
            if size != len(composed) or not deep_eq(parsed, obj):
                problems.append('banner of %d bytes does not round trip' % len(composed))
    return problems


def defaults_roundtrip():
    """objects built with every defaulted constructor argument left out (required ones taken from a parsed vector):
    the library's own default values must survive compose + parse as well"""
    import attr  # pylint: disable=import-outside-toplevel
    from symcheck.harness import registry  # pylint: disable=import-outside-toplevel
    problems, built = [], 0
    for cls, _ in registry.seeded_classes():
        if not attr.has(cls):
            continue
        fields = attr.fields(cls)
        if not any(field.default is not attr.NOTHING for field in fields if field.init):
            continue
        for _, parsed in registry.accepted_seeds(cls)[:2]:
            if not hasattr(parsed, 'compose'):
                continue
            required = {field.name.lstrip('_'): getattr(parsed, field.name) for field in fields
                        if field.init and field.default is attr.NOTHING}
            try:
                obj = cls(**required)
                composed = bytes(obj.compose())
            except Exception:  # pylint: disable=broad-except
                continue        # the defaults do not combine with these required values: not a constructible object
            built += 1
            try:
                again = cls.parse_exact_size(composed)
            except Exception as exc:  # pylint: disable=broad-except
                problems.append('%s built with its defaults composes to bytes its parser rejects: %s' % (
                    cls.__name__, type(exc).__name__))
                continue
            if not deep_eq(again, obj):
                differing = [field.name for field in fields
                             if not deep_eq(getattr(again, field.name), getattr(obj, field.name))]
                problems.append('%s built with its defaults differs from the object parsed from its own bytes in %s' % (
                    cls.__name__, ', '.join(differing)))
    if built < 10:
        problems.append('only %d objects could be built from defaults' % built)
    return sorted(set(problems))


def constructed(a: int, b: int, c: int, data: bytes, flag: bool) -> bool:
    """post: _"""
    if len(data) > P['B'] or not (0 <= a < 2 ** 64 and 0 <= b < 2 ** 64 and 0 <= c < 2 ** 64):
        return True
    if 'ALO' in P and not P['ALO'] <= a < P['AHI']:
        return True
    obj = BUILDERS[P['KIND']](a, b, c, data, flag)
    if obj is None:
        return True
    try:
        composed = bytes(obj.compose())
        parsed, size = type(obj).parse_immutable(composed)
    except Exception as exc:  # pylint: disable=broad-except
        return api.escaped(exc)
    reach()
    if size != len(composed):
        api.note('consumed %r of %r' % (size, len(composed)))
        return False
    if not deep_eq(parsed, obj):
        api.note('parsed object differs')
        return False
    exact = type(obj).parse_exact_size(composed)
    return deep_eq(exact, obj) and bytes(exact.compose()) == composed


def sample_args(rng, kwargs):
    return {'a': rng.choice([rng.randrange(0, 40), rng.randrange(0, 65536), P.get('ALO', 0) + rng.randrange(0, 16)]),
            'b': rng.randrange(0, 20), 'c': rng.randrange(0, 3),
            'data': bytes(rng.choice([97, 98, 48, 0, 255, 122, 32]) for _ in range(rng.randrange(0, 3)))}


# kinds whose first argument indexes a large enum: sharded into index ranges (one symbolic dimension per shard)
ENUM_SIZES = {
    'tls_cipher_suites': 'cryptodatahub.tls.algorithm.TlsCipherSuite',
    'tls_ext_groups': 'cryptodatahub.tls.algorithm.TlsNamedCurve',
    'tls_ext_sigalgs': 'cryptodatahub.tls.algorithm.TlsSignatureAndHashAlgorithm',
    'tls_ext_alpn': 'cryptodatahub.tls.algorithm.TlsProtocolName',
    'tls_ext_versions': 'cryptodatahub.tls.version.TlsVersion',
    'tls_ext_key_share': 'cryptodatahub.tls.algorithm.TlsNamedCurve',
    'tls_ext_unparsed_member': 'cryptodatahub.tls.algorithm.TlsExtensionType',
    'tls_server_hello': None,
}


def shards(tier, seed):
    from symcheck.harness import registry  # pylint: disable=import-outside-toplevel
    out = []
    body = 4 if tier == 'thorough' else 3
    bounds = ('object built by the real constructor: integer fields over their full width, enum fields over every '
              'member%s, opaque bytes <= %d symbolic bytes, one optional/second element toggled by a symbolic flag')
    for kind in sorted(BUILDERS):
        par = {'KIND': kind, 'B': body}
        if kind in ('tls_server_hello', 'dns_ds', 'openvpn'):
            par['B'] = 2
        if kind in ('dns_mx', 'tls_ext_sni', 'tls_ext_reneg', 'tls_ext_key_share') and tier == 'quick':
            par['B'] = 1
        enum_path = ENUM_SIZES.get(kind)
        if enum_path:
            size = len(list(registry.resolve(enum_path)))
            step = 32 if tier == 'quick' else 16
            ranges = list(range(0, size, step))
            if tier == 'quick' and len(ranges) > 3:
                # quick: first, last and one seed-rotated range; thorough: every member
                ranges = sorted({ranges[0], ranges[-1], ranges[1 + seed % (len(ranges) - 2)]})
            for low in ranges:
                out.append(Shard(MOD, 'constructed', 'k/%s/%d' % (kind, low), dict(par, ALO=low, AHI=low + step),
                                 400 if tier == 'thorough' else 90,
                                 bounds=bounds % (' with index %d..%d' % (low, min(low + step, size) - 1), par['B'])))
            continue
        out.append(Shard(MOD, 'constructed', 'k/' + kind, par, 600 if tier == 'thorough' else (
            240 if kind == 'tls_ext_reneg' else 90),
                         bounds=bounds % ('', par['B'])))
    out += windows.window_shards('rt', tier, seed, per_seed=2, tag='p')
    # text values whose construction goes through a parser: the shape generators of C05 assert the same chain
    from symcheck.harness import c05_canonical  # pylint: disable=import-outside-toplevel
    for shard in c05_canonical.shards(tier, seed):
        if shard.label.startswith(('shape/spf', 'shape/dns_name', 'shape/txt_multi')):
            shard.label = 't/' + shard.label[len('shape/'):]
            out.append(shard)
    out.append(Shard(MOD, 'defaults_roundtrip', 'k/defaults', {}, kind='concrete',
                     bounds='every seeded attrs class with defaulted constructor arguments: built with the defaults, '
                            'composed, parsed, compared field by field (natively)'))
    out.append(Shard(MOD, 'banner_lengths', 'k/ssh_banner_lengths', {}, kind='concrete',
                     bounds='identification strings of 250..255 bytes with and without comment (natively)'))
    return out
