# -*- coding: utf-8 -*-
"""C09 - opportunistic-TLS application messages match their protocol specifications.

Oracle: symcheck/refs/apps_ref.py.  Flag words vary over <= 4 free bits per shard (25 capability
flags would be 2^25 paths); everything else in the word is fixed by the shard.
"""
from symcheck import api
from symcheck.api import parse_errors, reach
from symcheck.refs import apps_ref as ref
from symcheck.runner import Shard

MOD = __name__
P = {}
PARSE_ERRORS = parse_errors()


def _flag_value(flags):
    total = 0
    for flag in flags:
        total += int(flag)
    return total


def _spread(index, free):
    """the index-th subset of the bit positions set in `free` (concrete arithmetic)"""
    word, bit, pos = 0, 0, 0
    while free >> pos:
        if (free >> pos) & 1:
            if (index >> bit) & 1:
                word |= 1 << pos
            bit += 1
        pos += 1
    return word


def _word(index):
    """flag word of the shard: fixed bits plus the index-th subset of the free bits.  The subset is picked from a
    concrete table by the symbolic index, so that the flag loops of the library run on concrete words (the nested
    div/mod terms of a symbolic word through bytes and back stall z3: ~60 s per path)"""
    count = bin(P['FREE']).count('1')
    if not 0 <= index < 2 ** count:
        return None
    for candidate in range(2 ** count):
        if index == candidate:       # fork on the symbolic index: the word itself is concrete afterwards
            return P['FIXED'] | _spread(candidate, P['FREE'])
    return None


def _known(code, codes):
    return any([code == item for item in codes])  # pylint: disable=use-a-generator


# --- MySQL ----------------------------------------------------------------------------------------------------------

def mysql_handshake(word: int, number: int, text: bytes) -> bool:
    """post: _"""
    from cryptoparser.tls.mysql import MySQLHandshakeV10  # pylint: disable=import-outside-toplevel
    dim = P['DIM']
    caps, status, charset, version, conn = P['CAPS'], 0x0002, 0x21, 10, 0x01020304
    if len(text) > 2:
        return True
    for char in text:
        if not 32 <= char < 127:
            return True
    if dim == 'caps':
        caps = _word(word)
        if caps is None or number != 0 or text != b'':
            return True
    elif dim == 'status':
        status = _word(word)
        if status is None or number != 0 or text != b'':
            return True
    elif dim == 'charset':
        if word != 0 or text != b'' or not _known(number, P['CHARSETS']):
            return True
        charset = number
    elif dim == 'connection':
        if word != 0 or text != b'' or not 0 <= number < 2 ** 32:
            return True
        conn = number
    elif dim == 'strings':
        if word != 0 or number != 0:
            return True
    plugin_auth = (caps >> 19) % 2 == 1
    server_version = b'8.0.' + text
    auth2 = (b'abcdefghijkl' + text + b'\x00') if plugin_auth else b''
    plugin = b'caching_sha2' + text
    wire = ref.mysql_handshake_v10(version, server_version, conn, b'12345678', caps, charset, status, auth2, plugin)
    try:
        parsed = MySQLHandshakeV10.parse_exact_size(wire)
    except PARSE_ERRORS:
        return False
    reach()
    if _flag_value(parsed.capabilities) != caps or _flag_value(parsed.states) != status:
        api.note('capabilities %#x states %#x' % (_flag_value(parsed.capabilities), _flag_value(parsed.states)))
        return False
    if parsed.character_set.value.code != charset or parsed.connection_id != conn:
        return False
    if int(parsed.protocol_version) != version or parsed.server_version.encode('ascii') != server_version:
        return False
    if bytes(parsed.auth_plugin_data) != b'12345678':
        return False
    if plugin_auth and (bytes(parsed.auth_plugin_data_2) != auth2 or parsed.auth_plugin_name.encode('ascii') != plugin):
        return False
    return bytes(parsed.compose()) == wire


def mysql_ssl_request(word: int, number: int) -> bool:
    """post: _"""
    from cryptoparser.tls.mysql import MySQLHandshakeSslRequest  # pylint: disable=import-outside-toplevel
    dim = P['DIM']
    proto41 = P['PROTO41']
    caps, size, charset = P['CAPS'], 0x01000000 if proto41 else 0x010203, 0x21
    if dim == 'caps':
        caps = _word(word)
        if caps is None or number != 0:
            return True
        if ((caps >> 9) % 2 == 1) != proto41:
            return True
    elif dim == 'size':
        if word != 0 or not 0 <= number < (2 ** 32 if proto41 else 2 ** 24):
            return True
        size = number
    elif dim == 'charset':
        if word != 0 or not _known(number, P['CHARSETS']):
            return True
        charset = number
    wire = ref.mysql_ssl_request_41(caps, size, charset) if proto41 else ref.mysql_ssl_request_320(caps, size)
    try:
        parsed = MySQLHandshakeSslRequest.parse_exact_size(wire)
    except PARSE_ERRORS:
        return False
    reach()
    if _flag_value(parsed.capabilities) != caps or parsed.max_packet_size != size:
        return False
    if proto41 and parsed.character_set.value.code != charset:
        return False
    return bytes(parsed.compose()) == wire


def mysql_record(sequence: int, payload: bytes) -> bool:
    """post: _"""
    from cryptoparser.tls.mysql import MySQLRecord  # pylint: disable=import-outside-toplevel
    if not 0 <= sequence < 256 or len(payload) > 4:
        return True
    wire = ref.mysql_packet(sequence, payload)
    if bytes(MySQLRecord(sequence, payload).compose()) != wire:
        return False
    parsed = MySQLRecord.parse_exact_size(wire)
    reach()
    return parsed.packet_number == sequence and bytes(parsed.packet_bytes) == payload


# --- RDP ------------------------------------------------------------------------------------------------------------

def rdp_cotp(src: int, dst: int, data: bytes) -> bool:
    """post: _"""
    from cryptoparser.tls import rdp  # pylint: disable=import-outside-toplevel
    if not (0 <= src < 65536 and 0 <= dst < 65536 and len(data) <= 3):
        return True
    confirm = P['CONFIRM']
    cls = rdp.COTPConnectionConfirm if confirm else rdp.COTPConnectionRequest
    other = rdp.COTPConnectionRequest if confirm else rdp.COTPConnectionConfirm
    wire = ref.cotp_connection(0xd0 if confirm else 0xe0, dst, src, 0, data)
    built = cls(src_ref=src, user_data=data, dst_ref=dst)
    if bytes(built.compose()) != wire:
        return False
    parsed = cls.parse_exact_size(wire)
    reach()
    if type(parsed) is not cls:      # pylint: disable=unidiomatic-typecheck
        return False                 # a confirm must never come back as a request
    if parsed.src_ref != src or parsed.dst_ref != dst or bytes(parsed.user_data) != data:
        return False
    try:
        other.parse_exact_size(wire)
        return False                 # the other PDU type must reject it
    except PARSE_ERRORS:
        pass
    inside = rdp.TPKT.parse_exact_size(ref.tpkt(wire))
    return bytes(inside.message) == wire and bytes(rdp.TPKT(3, wire).compose()) == ref.tpkt(wire)


def rdp_negotiation(flags: int, protocols: int) -> bool:
    """post: _"""
    from cryptoparser.tls import rdp  # pylint: disable=import-outside-toplevel
    response = P['RESPONSE']
    cls = rdp.RDPNegotiationResponse if response else rdp.RDPNegotiationRequest
    flag_enum = rdp.RDPNegotiationResponseFlags if response else rdp.RDPNegotiationRequestFlags
    defined_flags = _flag_value(flag_enum)
    defined_protocols = _flag_value(rdp.RDPProtocol)
    if not (0 <= flags < 256 and 0 <= protocols < 2 ** 32):
        return True
    if flags | defined_flags != defined_flags or protocols | defined_protocols != defined_protocols:
        return True          # undefined bits: C05's subject
    if P['DIM'] == 'flags' and protocols != 3:
        return True
    if P['DIM'] == 'protocols' and flags != 1:
        return True
    wire = ref.rdp_negotiation(2 if response else 1, flags, protocols)
    try:
        parsed = cls.parse_exact_size(wire)
    except PARSE_ERRORS:
        return False
    reach()
    if type(parsed) is not cls:      # pylint: disable=unidiomatic-typecheck
        return False
    for flag in parsed.flags:
        if not isinstance(flag, flag_enum):
            return False             # a response flag decoded as a request flag (or vice versa)
    if _flag_value(parsed.flags) != flags or _flag_value(parsed.protocol) != protocols:
        return False
    return bytes(parsed.compose()) == wire


# --- OpenVPN ----------------------------------------------------------------------------------------------------------

def openvpn_packet(session: int, remote: int, packet_id: int, ack: int, count: int, payload: bytes) -> bool:
    """post: _"""
    from cryptoparser.tls import openvpn  # pylint: disable=import-outside-toplevel
    if not (0 <= session < 2 ** 16 and 0 <= remote < 2 ** 16 and 0 <= packet_id < 2 ** 32 and 0 <= ack < 2 ** 32):
        return True
    # 64-bit ids: the symbolic 16 bits sit in the low or in the high two bytes (P['HIGH']), the rest is fixed
    if P.get('HIGH') and not (session < 256 and remote < 256):
        return True
    small = P.get('SMALL')      # ids 0..65535 themselves (zero included)
    session = session * 2 ** 56 + 0x08030405060708 if P.get('HIGH') else (0 if small else 0x0102030405060000) + session
    remote = remote * 2 ** 56 + 0x18131415161718 if P.get('HIGH') else (0 if small else 0x1112131415160000) + remote
    if not (0 <= count <= 3 and len(payload) <= 2):
        return True
    dim = P['DIM']
    if dim != 'session' and session not in (0x0102030405060708, 0x0808030405060708, 0x0708):
        return True
    if dim != 'remote' and remote not in (0x1112131415161718, 0x1818131415161718, 0x1718):
        return True
    if dim != 'ids' and (packet_id != 7 or ack != 9):
        return True
    if dim != 'count' and count != (0 if P['KIND'] == 'reset_client' else 1):
        return True
    if dim != 'payload' and payload != b'':
        return True
    acks = [ack, ack + 1, ack + 2][:count] if ack < 2 ** 32 - 2 else [ack][:count]
    kind = P['KIND']
    if kind == 'control':
        wire = ref.openvpn_control(4, 0, session, acks, remote, packet_id, payload)
        cls = openvpn.OpenVpnPacketControlV1
    elif kind == 'ack':
        if payload != b'' or packet_id != 7:
            return True
        wire = ref.openvpn_header(5, 0, session, acks, remote)
        cls = openvpn.OpenVpnPacketAckV1
    elif kind == 'reset_client':
        if payload != b'' or count != 0:
            return True
        wire = ref.openvpn_control(7, 0, session, [], remote, packet_id, b'')
        cls = openvpn.OpenVpnPacketHardResetClientV2
    else:
        if payload != b'':
            return True
        wire = ref.openvpn_control(8, 0, session, acks, remote, packet_id, b'')
        cls = openvpn.OpenVpnPacketHardResetServerV2
    try:
        parsed = cls.parse_exact_size(wire)
    except PARSE_ERRORS:
        return False
    reach()
    if type(parsed) is not cls or parsed.session_id != session:   # pylint: disable=unidiomatic-typecheck
        return False
    if list(parsed.packet_id_array) != acks:
        return False
    if acks and parsed.remote_session_id != remote:
        return False
    if kind != 'ack' and parsed.packet_id != packet_id:
        return False
    if kind == 'control' and bytes(parsed.payload) != payload:
        return False
    if bytes(parsed.compose()) != wire:
        return False
    variant = openvpn.OpenVpnPacketVariant.parse_exact_size(wire)
    if type(variant) is not cls:   # pylint: disable=unidiomatic-typecheck
        return False
    wrapped = openvpn.OpenVpnPacketWrapperTcp.parse_exact_size(ref.openvpn_tcp(wire))
    return bytes(wrapped.payload) == wire


def openvpn_many_acks():
    """concrete: packet-id arrays of 0..255 entries"""
    from cryptoparser.tls import openvpn  # pylint: disable=import-outside-toplevel
    problems = []
    for count in (0, 1, 2, 127, 254, 255):
        acks = list(range(100, 100 + count))
        wire = ref.openvpn_header(5, 0, 1, acks, 2)
        try:
            parsed = openvpn.OpenVpnPacketAckV1.parse_exact_size(wire)
            if list(parsed.packet_id_array) != acks or bytes(parsed.compose()) != wire:
                problems.append('ack packet with %d packet ids does not round trip' % count)
        except Exception as exc:  # pylint: disable=broad-except
            problems.append('ack packet with %d packet ids: %s' % (count, type(exc).__name__))
    return problems


# --- PostgreSQL / LDAP ---------------------------------------------------------------------------------------------------

def pg_ssl_request(length: int, code: int) -> bool:
    """post: _"""
    from cryptoparser.tls.postgresql import SslRequest  # pylint: disable=import-outside-toplevel
    if not (0 <= length < 2 ** 32 and 0 <= code < 2 ** 32):
        return True
    wire = ref.be(length, 4) + ref.be(code, 4)
    try:
        SslRequest.parse_exact_size(wire)
    except PARSE_ERRORS:
        reach()
        return wire != ref.pg_ssl_request()
    reach()
    return wire == ref.pg_ssl_request() and bytes(SslRequest().compose()) == wire


def ldap_response(message_id: int, result: int) -> bool:
    """post: _"""
    from cryptoparser.tls import ldap  # pylint: disable=import-outside-toplevel
    if not (0 <= message_id < 128 and 0 <= result < 128):
        return True
    if P['DIM'] == 'result' and message_id != 1:
        return True
    if P['DIM'] == 'id' and result != 0:
        return True
    wire = ref.ldap_start_tls_response(message_id, result)
    known = _known(result, P['RESULTS'])
    try:
        parsed = ldap.LDAPExtendedResponseStartTLS.parse_exact_size(wire)
    except PARSE_ERRORS:
        reach()
        return not known
    except Exception as exc:  # pylint: disable=broad-except
        return api.escaped(exc)
    reach()
    if type(parsed) is not ldap.LDAPExtendedResponseStartTLS or int(parsed.result_code) != result:  # pylint: disable=unidiomatic-typecheck
        return False
    if message_id == 1 and bytes(parsed.compose()) != wire:
        return False
    try:
        ldap.LDAPExtendedRequestStartTLS.parse_exact_size(wire)
    except PARSE_ERRORS:
        return True
    except Exception as exc:  # pylint: disable=broad-except
        return api.escaped(exc)
    api.note('a response was accepted by the request class')
    return False


def ldap_request(message_id: int) -> bool:
    """post: _"""
    from cryptoparser.tls import ldap  # pylint: disable=import-outside-toplevel
    if not 0 <= message_id < 128:
        return True
    wire = ref.ldap_start_tls_request(message_id)
    parsed = ldap.LDAPExtendedRequestStartTLS.parse_exact_size(wire)
    reach()
    if type(parsed) is not ldap.LDAPExtendedRequestStartTLS:   # pylint: disable=unidiomatic-typecheck
        return False
    if message_id == 1 and bytes(parsed.compose()) != wire:
        return False
    try:
        ldap.LDAPExtendedResponseStartTLS.parse_exact_size(wire)
    except PARSE_ERRORS:
        return True
    except Exception as exc:  # pylint: disable=broad-except
        return api.escaped(exc)
    api.note('a request was accepted by the response class')
    return False


def sample_args(rng, kwargs):
    out = {}
    for name in kwargs:
        if name == 'word':
            out[name] = rng.randrange(0, 16)
        elif name == 'number':
            out[name] = rng.choice(P['CHARSETS']) if P.get('DIM') == 'charset' else rng.choice([0, 0, rng.randrange(2 ** 24)])
        elif name in ('text', 'data', 'payload'):
            out[name] = bytes(rng.choice(b'ab1') for _ in range(rng.randrange(0, 2)))
        elif name == 'flags':
            out[name] = rng.choice([1, 1, 2, 3, 8])
        elif name == 'protocols':
            out[name] = rng.choice([3, 3, 1, 2, 11])
        elif name == 'session':
            out[name] = 0x08 if P.get('HIGH') else 0x0708
        elif name == 'remote':
            out[name] = 0x18 if P.get('HIGH') else 0x1718
        elif name == 'packet_id':
            out[name] = 7
        elif name == 'ack':
            out[name] = 9
        elif name == 'count':
            out[name] = (0 if P.get('KIND') == 'reset_client' else 1) if P.get('DIM') != 'count' else rng.randrange(0, 4)
        elif name == 'length':
            out[name] = rng.choice([8, 8, 7, 9])
        elif name == 'code':
            out[name] = rng.choice([80877103, 80877103, 0])
        elif name == 'message_id':
            out[name] = 1 if P.get('DIM') == 'result' else rng.randrange(128)
        elif name == 'result':
            out[name] = 0 if P.get('DIM') == 'id' else rng.randrange(128)
        elif name in ('src', 'dst', 'sequence'):
            out[name] = rng.randrange(256)
    return out


def _groups(bits, width=4):
    return [sum(1 << pos for pos in range(low, min(low + width, bits))) for low in range(0, bits, width)]


def shards(tier, seed):  # pylint: disable=unused-argument,too-many-locals
    from cryptoparser.tls.ldap import LDAPResultCode  # pylint: disable=import-outside-toplevel
    from cryptoparser.tls.mysql import MySQLCharacterSet  # pylint: disable=import-outside-toplevel
    out = []
    charsets = sorted(item.value.code for item in MySQLCharacterSet)
    base_caps = 0x000aa20d        # incl. PROTOCOL_41, SECURE_CONNECTION, PLUGIN_AUTH
    for plugin_auth in (True, False):
        caps0 = base_caps if plugin_auth else base_caps & ~0x00080000
        for free in _groups(25):
            if tier == 'quick' and not plugin_auth and free not in (0xf000, 0xf0000):
                continue
            out.append(Shard(MOD, 'mysql_handshake', 'mysql/handshake/caps-%s/%x' % ('pa' if plugin_auth else 'nopa', free),
                             {'DIM': 'caps', 'CAPS': caps0, 'FREE': free, 'FIXED': caps0 & ~free}, 300,
                             bounds='HandshakeV10: capability bits %#x free, the others as %#x' % (free, caps0 & ~free)))
    from cryptoparser.tls.mysql import MySQLStatusFlag  # pylint: disable=import-outside-toplevel
    defined_status = _flag_value(MySQLStatusFlag)
    for free in [group & defined_status for group in _groups(16) if group & defined_status]:
        out.append(Shard(MOD, 'mysql_handshake', 'mysql/handshake/status/%x' % free,
                         {'DIM': 'status', 'CAPS': base_caps, 'FREE': free, 'FIXED': 0x0002 & ~free}, 300,
                         bounds='HandshakeV10: status bits %#x free' % free))
    for dim in ('charset', 'connection', 'strings'):
        out.append(Shard(MOD, 'mysql_handshake', 'mysql/handshake/' + dim,
                         {'DIM': dim, 'CAPS': base_caps, 'CHARSETS': charsets, 'FREE': 0, 'FIXED': 0}, 400,
                         bounds='HandshakeV10: %s over its whole domain' % dim))
    for proto41 in (True, False):
        caps0 = 0x00000a00 if proto41 else 0x00000800
        tag = '41' if proto41 else '320'
        for free in _groups(25 if proto41 else 16):
            if tier == 'quick' and free not in (0xf, 0xf00, 0xf000, 0xf0000):
                continue
            out.append(Shard(MOD, 'mysql_ssl_request', 'mysql/ssl_request%s/caps/%x' % (tag, free),
                             {'DIM': 'caps', 'PROTO41': proto41, 'CAPS': caps0, 'FREE': free, 'FIXED': caps0 & ~free},
                             300, bounds='SSLRequest (%s): capability bits %#x free' % (tag, free)))
        out.append(Shard(MOD, 'mysql_ssl_request', 'mysql/ssl_request%s/size' % tag,
                         {'DIM': 'size', 'PROTO41': proto41, 'CAPS': caps0, 'FREE': 0, 'FIXED': 0}, 300,
                         bounds='SSLRequest (%s): every max_packet_size of the field width' % tag))
    out.append(Shard(MOD, 'mysql_ssl_request', 'mysql/ssl_request41/charset',
                     {'DIM': 'charset', 'PROTO41': True, 'CAPS': 0xa00, 'CHARSETS': charsets, 'FREE': 0, 'FIXED': 0}, 300,
                     bounds='SSLRequest (4.1): every defined character set'))
    out.append(Shard(MOD, 'mysql_record', 'mysql/record', {}, 200, bounds='sequence id 0..255, payload <= 4 symbolic bytes'))
    for confirm in (False, True):
        out.append(Shard(MOD, 'rdp_cotp', 'rdp/cotp/%s' % ('confirm' if confirm else 'request'), {'CONFIRM': confirm},
                         300, bounds='all 2^32 (src-ref, dst-ref) pairs, user data <= 3 symbolic bytes, inside TPKT'))
    for response in (False, True):
        for dim in ('flags', 'protocols'):
            out.append(Shard(MOD, 'rdp_negotiation', 'rdp/negotiation/%s/%s' % ('response' if response else 'request',
                                                                              dim),
                             {'RESPONSE': response, 'DIM': dim}, 300,
                             bounds='every subset of the defined %s' % dim))
    for kind in ('control', 'ack', 'reset_client', 'reset_server'):
        for dim in ('session', 'remote', 'ids', 'count', 'payload'):
            if kind == 'reset_client' and dim in ('remote', 'count', 'payload'):
                continue
            if kind != 'control' and dim == 'payload':
                continue
            for high in ((False, True, 'small') if dim in ('session', 'remote') else (False,)):
                out.append(Shard(MOD, 'openvpn_packet', 'openvpn/%s/%s%s' % (kind, dim, {False: '', True: '-high'}.get(high, '-small')),
                                 {'KIND': kind, 'DIM': dim, 'HIGH': high is True, 'SMALL': high == 'small'}, 300,
                                 bounds='OpenVPN %s packet: %s symbolic (64-bit ids: %s)' % (
                                     kind, dim, 'the most significant byte' if high is True else ('values 0..65535' if high else 'the low two bytes'))))
    out.append(Shard(MOD, 'openvpn_many_acks', 'openvpn/many_acks', {}, kind='concrete',
                     bounds='packet-id arrays of 0, 1, 2, 127, 254, 255 entries (natively)'))
    out.append(Shard(MOD, 'pg_ssl_request', 'postgresql/ssl_request', {}, 200, bounds='all 2^64 (length, code) pairs'))
    results = sorted(int(item) for item in LDAPResultCode)
    out.append(Shard(MOD, 'ldap_response', 'ldap/response/result', {'DIM': 'result', 'RESULTS': results}, 400,
                     bounds='StartTLS response: every result code 0..127'))
    out.append(Shard(MOD, 'ldap_response', 'ldap/response/id', {'DIM': 'id', 'RESULTS': results}, 400,
                     bounds='StartTLS response: every message id 0..127'))
    out.append(Shard(MOD, 'ldap_request', 'ldap/request', {}, 400, bounds='StartTLS request: every message id 0..127'))
    return out
