# -*- coding: utf-8 -*-
"""C12 - length-prefixed vectors stay within bounds through any edit sequence.

Inductive step (I-style): pre-state = any vector the real constructor accepts (list K <= 4 of
symbolic items, and the bounds MIN/MAX themselves solver variables, so both bounds are touched by
tiny lists); one operation with symbolic arguments; afterwards contents == plain-list model,
Inv(v): v._items_size == sum(get_item_size(x)) and MIN <= size <= MAX, an edit is refused exactly
when the model's result would leave the bounds, and a refused edit leaves contents and size alone.
Inv is exactly what the constructor establishes, so one step covers histories of any length.
"""
from typing import List

from cryptoparser.common.base import (
    ArrayBase, Vector, VectorParamNumeric, VectorParamParsable, VectorParsable,
)
from cryptoparser.common.exception import InvalidDataLength, NotEnoughData, TooMuchData
from cryptoparser.common.parse import ParsableBase

from symcheck.api import reach
from symcheck.runner import Shard

MOD = __name__
P = {}

_BOUNDS = [0, 0]


class _Sized(object):  # pylint: disable=too-few-public-methods
    def __init__(self, size):
        self.size = size

    def __len__(self):
        return self.size


class _Item(ParsableBase):
    """variable-size item: encodes to `size` bytes"""

    def __init__(self, size, tag=0):
        self.size = size
        self.tag = tag

    @classmethod
    def _parse(cls, parsable):
        raise NotImplementedError()

    def compose(self):
        return _Sized(self.size)

    def __eq__(self, other):
        return isinstance(other, _Item) and self.size == other.size and self.tag == other.tag

    def __hash__(self):
        return 0


def _numeric_param(item_size):
    param = object.__new__(VectorParamNumeric)
    param.min_byte_num, param.max_byte_num = _BOUNDS
    param.item_num_size = 2
    param.item_size = item_size
    param.numeric_class = int
    return param


class _VecN(Vector):
    @classmethod
    def get_param(cls):
        return _numeric_param(P.get('ITEM', 1))


class _VecP(VectorParsable):
    @classmethod
    def get_param(cls):
        param = object.__new__(VectorParamParsable)
        param.min_byte_num, param.max_byte_num = _BOUNDS
        param.item_num_size = 2
        param.item_class = _Item
        param.fallback_class = None
        return param


def _mk_items(raw):
    """numeric vectors hold the ints themselves, parsable vectors hold items of 1..3 bytes"""
    if P['KIND'] == 'N':
        return list(raw)
    return [_Item(1 + value % 3, value // 3) for value in raw]


def _size_of(items):
    if P['KIND'] == 'N':
        return len(items) * P.get('ITEM', 1)
    total = 0
    for item in items:
        total += item.size
    return total


def _inv(vec):
    size = _size_of(vec._items)  # pylint: disable=protected-access
    return vec._items_size == size and _BOUNDS[0] <= size <= _BOUNDS[1]  # pylint: disable=protected-access


def _pre(raw, vmin, vmax):
    """arbitrary valid pre-state or None"""
    if len(raw) > P.get('K', 4):
        return None
    for value in raw:
        if not 0 <= value < 9:
            return None
    if not 0 <= vmin <= vmax <= 16:
        return None
    _BOUNDS[0], _BOUNDS[1] = vmin, vmax
    items = _mk_items(raw)
    cls = _VecN if P['KIND'] == 'N' else _VecP
    try:
        vec = cls(list(items))
    except InvalidDataLength:
        return None
    if not _inv(vec):
        return 'broken'
    return vec


def _judge(vec, before, size_before, model, model_error, raised):  # pylint: disable=too-many-arguments,too-many-return-statements
    """shared postcondition"""
    reach()
    now = list(vec._items)  # pylint: disable=protected-access
    if model_error is not None:
        # the plain list refuses the operation itself (IndexError / ValueError): the vector must do the same and stay put
        if raised is None or not isinstance(raised, type(model_error)):
            return False
        return now == before and vec._items_size == size_before  # pylint: disable=protected-access
    new_size = _size_of(model)
    in_bounds = _BOUNDS[0] <= new_size <= _BOUNDS[1]
    if raised is not None:
        if not isinstance(raised, InvalidDataLength):
            return False
        if in_bounds:
            return False    # refused although the result is within bounds
        return now == before and vec._items_size == size_before  # pylint: disable=protected-access
    if not in_bounds:
        return False        # accepted although the result leaves the bounds
    return now == model and _inv(vec)


def _apply(vec, model, operation):
    raised = model_error = None
    try:
        operation(model)
    except (IndexError, ValueError) as exc:
        model_error = exc
    try:
        operation(vec)
    except (InvalidDataLength, IndexError, ValueError) as exc:
        raised = exc
    return model_error, raised


def _step(raw, vmin, vmax, operation):
    vec = _pre(raw, vmin, vmax)
    if vec is None:
        return True
    if vec == 'broken':
        return False
    before = list(vec._items)  # pylint: disable=protected-access
    size_before = vec._items_size  # pylint: disable=protected-access
    model = list(before)
    model_error, raised = _apply(vec, model, operation)
    return _judge(vec, before, size_before, model, model_error, raised)


def _rhs(items):
    """the right-hand side of a bulk edit as the kind of iterable the shard names: a plain list accepts all of them"""
    kind = P.get('RHS', 'list')
    if kind == 'iter':
        return iter(list(items))        # one-shot: a second pass over it yields nothing
    if kind == 'tuple':
        return tuple(items)
    return list(items)


def op_append(raw: List[int], vmin: int, vmax: int, value: int) -> bool:
    """post: _"""
    if not 0 <= value < 9:
        return True
    item = _mk_items([value])[0]
    return _step(raw, vmin, vmax, lambda seq: seq.append(item))


def op_insert(raw: List[int], vmin: int, vmax: int, index: int, value: int) -> bool:
    """post: _"""
    if not (0 <= value < 9 and -6 <= index <= 6):
        return True
    item = _mk_items([value])[0]
    return _step(raw, vmin, vmax, lambda seq: seq.insert(index, item))


def op_extend(raw: List[int], vmin: int, vmax: int, extra: List[int]) -> bool:
    """post: _"""
    if len(extra) > 3:
        return True
    for value in extra:
        if not 0 <= value < 9:
            return True
    items = _mk_items(extra)
    return _step(raw, vmin, vmax, lambda seq: seq.extend(_rhs(items)))


def op_iadd(raw: List[int], vmin: int, vmax: int, extra: List[int]) -> bool:
    """post: _"""
    if len(extra) > 3:
        return True
    for value in extra:
        if not 0 <= value < 9:
            return True
    items = _mk_items(extra)

    def operation(seq):
        seq += _rhs(items)

    return _step(raw, vmin, vmax, operation)


def op_pop(raw: List[int], vmin: int, vmax: int, index: int) -> bool:
    """post: _"""
    if not -6 <= index <= 6:
        return True
    return _step(raw, vmin, vmax, lambda seq: seq.pop(index))


def op_pop_default(raw: List[int], vmin: int, vmax: int) -> bool:
    """post: _"""
    return _step(raw, vmin, vmax, lambda seq: seq.pop())


def op_remove(raw: List[int], vmin: int, vmax: int, value: int) -> bool:
    """post: _"""
    if not 0 <= value < 9:
        return True
    item = _mk_items([value])[0]
    return _step(raw, vmin, vmax, lambda seq: seq.remove(item))


def op_delitem(raw: List[int], vmin: int, vmax: int, index: int) -> bool:
    """post: _"""
    if not -6 <= index <= 6:
        return True

    def operation(seq):
        del seq[index]

    return _step(raw, vmin, vmax, operation)


def op_delslice(raw: List[int], vmin: int, vmax: int, start: int, stop: int) -> bool:
    """post: _"""
    if start != P['START'] or not -4 <= stop <= 4:
        return True
    start = P['START']

    step = P.get('STEP', 1)

    def operation(seq):
        if step == 1:
            del seq[start:stop]
        else:
            del seq[start:stop:step]

    return _step(raw, vmin, vmax, operation)


def op_setitem(raw: List[int], vmin: int, vmax: int, index: int, value: int) -> bool:
    """post: _"""
    if not (0 <= value < 9 and -6 <= index <= 6):
        return True
    item = _mk_items([value])[0]

    def operation(seq):
        seq[index] = item

    return _step(raw, vmin, vmax, operation)


def op_setslice(raw: List[int], vmin: int, vmax: int, start: int, stop: int, extra: List[int]) -> bool:
    """post: _"""
    if start != P['START'] or not -4 <= stop <= 4 or len(extra) > 2:
        return True
    start = P['START']
    for value in extra:
        if not 0 <= value < 9:
            return True
    items = _mk_items(extra)

    step = P.get('STEP', 1)

    def operation(seq):
        if step == 1:
            seq[start:stop] = _rhs(items)
        else:
            seq[start:stop:step] = _rhs(items)     # a plain list insists on equal lengths here (ValueError)

    return _step(raw, vmin, vmax, operation)


def op_reverse(raw: List[int], vmin: int, vmax: int) -> bool:
    """post: _"""
    return _step(raw, vmin, vmax, lambda seq: seq.reverse())


def op_clear(raw: List[int], vmin: int, vmax: int) -> bool:
    """post: _"""
    return _step(raw, vmin, vmax, lambda seq: seq.clear())


def constructor(raw: List[int], vmin: int, vmax: int) -> bool:
    """post: _"""
    # base case: the constructor establishes Inv or refuses, and copies its argument
    if len(raw) > P.get('K', 4):
        return True
    for value in raw:
        if not 0 <= value < 9:
            return True
    if not 0 <= vmin <= vmax <= 16:
        return True
    _BOUNDS[0], _BOUNDS[1] = vmin, vmax
    items = _mk_items(raw)
    size = _size_of(items)
    cls = _VecN if P['KIND'] == 'N' else _VecP
    source = list(items)
    try:
        vec = cls(source)
    except InvalidDataLength:
        reach()
        return not vmin <= size <= vmax
    reach()
    if not vmin <= size <= vmax:
        return False
    if list(vec) != items or not _inv(vec):
        return False
    # a second vector built from the same list object, and the list itself, stay independent
    twin = cls(source)
    source.append(_mk_items([1])[0])
    if list(vec) != items or list(twin) != items:
        return False
    if len(items) >= 1:
        try:
            vec[0] = _mk_items([2])[0]
        except InvalidDataLength:
            return True
        return list(twin) == items and _inv(twin)
    return True


def sample_args(rng, kwargs):
    """differential runs: arguments inside the guarded ranges"""
    out = {}
    low = rng.randrange(0, 6)
    for name in kwargs:
        if name == 'vmin':
            out[name] = low
        elif name == 'vmax':
            out[name] = low + rng.randrange(0, 10)
        elif name in ('raw', 'extra'):
            out[name] = [rng.randrange(0, 9) for _ in range(rng.randrange(0, 4))]
        elif name in ('index', 'stop'):
            out[name] = rng.randrange(-4, 5)
        elif name == 'start':
            out[name] = P.get('START', 0)
        elif name == 'value':
            out[name] = rng.randrange(0, 9)
    return out


OPS = ['constructor', 'op_append', 'op_insert', 'op_extend', 'op_iadd', 'op_pop', 'op_pop_default', 'op_remove',
       'op_delitem', 'op_delslice', 'op_setitem', 'op_setslice', 'op_reverse', 'op_clear']


# --- per library class: size bookkeeping equals the encoding, prefix fits -------------------------------------

def _library_vector_classes():
    from cryptoparser.common.utils import get_leaf_classes  # pylint: disable=import-outside-toplevel
    import symcheck.harness.registry as registry  # pylint: disable=import-outside-toplevel
    registry.import_all()
    return [cls for cls in get_leaf_classes(ArrayBase) if cls.__module__.startswith('cryptoparser.')]


def library_item_sizes():
    """concrete side condition: for every ArrayBase subclass of the current tree and every seed vector of it,
    _items_size == len(body of compose()) and the prefix equals the body length"""
    import symcheck.harness.registry as registry  # pylint: disable=import-outside-toplevel
    problems = []
    for cls in _library_vector_classes():
        for vector in registry.sample_vectors(cls):
            try:
                composed = bytes(vector.compose())
            except Exception as exc:  # pylint: disable=broad-except
                problems.append('%s: compose() of %r raised %s' % (cls.__name__, list(vector)[:3], type(exc).__name__))
                continue
            prefix = vector.param.item_num_size
            size = vector._items_size  # pylint: disable=protected-access
            if not prefix or (len(composed) == size and vector.param.min_byte_num == vector.param.max_byte_num):
                continue    # list without length prefix (CRLF separated header block, fixed-size random bytes)
            body = len(composed) - prefix
            declared = int.from_bytes(composed[:prefix], 'big')
            if declared != body:
                problems.append('%s: prefix %d != body length %d' % (cls.__name__, declared, body))
            if vector.param.max_byte_num < 2 ** 24 and size != body:
                # (name-lists with a 2^32-1 ceiling record their size without separators; that ceiling cannot be
                # reached, so the clause "prefix fits its width" is not affected and they are not compared)
                problems.append('%s: recorded size %d != encoded body size %d for %r' % (
                    cls.__name__, size, body, list(vector)[:3]))
    return problems


def shards(tier, seed):  # pylint: disable=unused-argument
    out = []
    thorough = tier == 'thorough'
    kinds = [('N', 1), ('N', 2), ('P', 0)]
    for kind, item in kinds:
        for name in OPS:
            par = {'KIND': kind, 'ITEM': item, 'K': 4 if tier == 'thorough' else 3}
            if name in ('op_delslice', 'op_setslice'):
                for start in range(-4, 5):
                    for rhs in (('list', 'iter', 'tuple') if name == 'op_setslice' and (thorough or kind == 'P' or
                                                                                        item == 1) else ('list',)):
                        if rhs == 'tuple' and not thorough:
                            continue
                        spar = dict(par, START=start, RHS=rhs)
                        out.append(Shard(MOD, name, '%s/%s%s/start%+d%s' % (name, kind, item or '', start,
                                                                           '' if rhs == 'list' else '/' + rhs), spar,
                                         300 if thorough else 120,
                                         bounds='one %s step, slice start %d, stop symbolic in -4..4, right-hand side a '
                                                '%s, from every valid vector of K<=%d items, MIN/MAX symbolic in 0..16' % (
                                                    name, start, rhs, par['K'])))
                if (thorough or (kind, item) == ('P', 0)):
                    for step in (2, -1):
                        for start in (range(-4, 5) if thorough else (0, -1, 3)):
                            out.append(Shard(MOD, name, '%s/%s%s/start%+d/step%+d' % (name, kind, item or '', start, step),
                                         dict(par, START=start, STEP=step, RHS='list'), 300 if thorough else 120,
                                         bounds='one %s step on the extended slice [%d:stop:%d], stop symbolic in -4..4, '
                                                'from every valid vector of K<=%d items, MIN/MAX symbolic in 0..16' % (
                                                    name, start, step, par['K'])))
                continue
            if name in ('op_extend', 'op_iadd'):
                for rhs in ('iter', 'tuple'):
                    out.append(Shard(MOD, name, '%s/%s%s/%s' % (name, kind, item or '', rhs), dict(par, RHS=rhs),
                                     300 if thorough else 120,
                                     bounds='one %s step with a %s as argument from every valid vector of K<=%d items, '
                                            'MIN/MAX symbolic in 0..16' % (name, rhs, par['K'])))
            out.append(Shard(MOD, name, '%s/%s%s' % (name, kind, item or ''), par,
                             300 if tier == 'thorough' else 120,
                             bounds='one %s step from every valid vector of K<=%d %s items, MIN/MAX symbolic in 0..16, '
                                    'positions symbolic' % (name, par['K'],
                                                            'fixed-size (%d byte)' % item if kind == 'N' else
                                                            'variable-size (1..3 byte)')))
    out.append(Shard(MOD, 'library_item_sizes', 'library_item_sizes', {}, kind='concrete',
                     bounds='every ArrayBase subclass of the current tree x its seed vectors: recorded size == '
                            'encoded body size == length prefix (natively enumerated)'))
    return out
