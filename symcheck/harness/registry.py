# -*- coding: utf-8 -*-
"""Registries built from the *current* tree: leaf parsable classes, committed seed corpus."""
import importlib
import json
import os
import pkgutil

VERIF = os.path.dirname(os.path.dirname(os.path.dirname(os.path.abspath(__file__))))
_SEEDS = None


def import_all():
    import cryptoparser  # pylint: disable=import-outside-toplevel
    for info in pkgutil.walk_packages(cryptoparser.__path__, 'cryptoparser.'):
        try:
            importlib.import_module(info.name)
        except Exception:  # pylint: disable=broad-except
            pass


def load_seeds():
    global _SEEDS  # pylint: disable=global-statement
    if _SEEDS is None:
        with open(os.path.join(VERIF, 'seeds', 'seeds.json')) as handle:
            raw = json.load(handle)
        _SEEDS = {name: [bytes.fromhex(item) for item in items] for name, items in raw.items()}
    return _SEEDS


def class_name(cls):
    return cls.__module__ + '.' + cls.__qualname__


def resolve(name):
    module_name, _, qualname = name.rpartition('.')
    try:
        module = importlib.import_module(module_name)
        obj = module
        for part in qualname.split('.'):
            obj = getattr(obj, part)
        return obj
    except (ImportError, AttributeError):
        # nested class: module path shorter
        parts = name.split('.')
        for cut in range(len(parts) - 1, 0, -1):
            try:
                obj = importlib.import_module('.'.join(parts[:cut]))
            except ImportError:
                continue
            try:
                for part in parts[cut:]:
                    obj = getattr(obj, part)
                return obj
            except AttributeError:
                return None
    return None


def seeds_for(cls):
    return list(load_seeds().get(class_name(cls), []))


def seeded_classes():
    """[(class, [seed bytes])] for every seeded class that still exists in the current tree"""
    import_all()
    out = []
    for name, items in sorted(load_seeds().items()):
        cls = resolve(name)
        if cls is not None and hasattr(cls, 'parse_exact_size'):
            out.append((cls, items))
    return out


def leaf_parsable_classes():
    import_all()
    from cryptoparser.common.parse import ParsableBaseNoABC  # pylint: disable=import-outside-toplevel
    from cryptoparser.common.utils import get_leaf_classes  # pylint: disable=import-outside-toplevel
    classes = [cls for cls in get_leaf_classes(ParsableBaseNoABC) if cls.__module__.startswith('cryptoparser.')]
    return sorted(set(classes), key=class_name)


def accepted_seeds(cls):
    """seeds of cls that the current tree still accepts, with the parsed object"""
    from symcheck.api import parse_errors  # pylint: disable=import-outside-toplevel
    out = []
    for data in seeds_for(cls):
        try:
            obj = cls.parse_exact_size(data)
        except parse_errors():
            continue
        except Exception:  # pylint: disable=broad-except
            continue
        out.append((data, obj))
    return out


def sample_vectors(cls):
    return [obj for _, obj in accepted_seeds(cls) if hasattr(obj, '_items')]
