# -*- coding: utf-8 -*-
"""C13 - observers are pure; parsed objects do not alias their input; defaults are not shared.

(a) observer purity on objects parsed from single-byte windows of accepted vectors: after every
    sequence of two observer calls the object equals a deep copy taken before, and each observer
    returns the same result again; the failing-observer case (cipher suite vector at its ceiling,
    SCSV flags symbolic) separately.
(b) aliasing: parse from a bytearray with a symbolic byte, overwrite a symbolic index of the buffer
    with a symbolic value and clear it: the object equals its snapshot.
(c) shared defaults: natively, for every seeded attrs class (fork-exhaustive, nothing for the solver).
"""
import copy

from symcheck import api
from symcheck.api import deep_eq, parse_errors, reach
from symcheck.harness import registry
from symcheck.runner import Shard

MOD = __name__
P = {}
PARSE_ERRORS = parse_errors()

OBSERVERS = ['compose', 'as_markdown', 'ja3', 'hassh', 'hassh_server', 'key_tag', '_asdict']


def _observe(obj, name):
    attribute = getattr(type(obj), name, None)
    if attribute is None:
        return None
    try:
        if isinstance(attribute, property):
            value = getattr(obj, name)
        else:
            value = getattr(obj, name)()
    except PARSE_ERRORS as exc:
        return ('raised', type(exc).__name__)
    if isinstance(value, (bytes, bytearray)):
        return bytes(value)
    return value


def _all_subclasses(cls, found):
    for sub in cls.__subclasses__():
        if sub not in found:
            found.add(sub)
            _all_subclasses(sub, found)
    return found


def _install_encoders():
    """class-level state: Serializable.post_text_encoder is swapped while a non-string dictionary key is rendered.
    Give every Serializable class an encoder of its own (same behaviour as the stock one) so that a missing or a
    misdirected restore shows as a changed class attribute."""
    from cryptoparser.common.base import Serializable, SerializableTextEncoder  # pylint: disable=import-outside-toplevel

    class Encoder(SerializableTextEncoder):
        pass

    installed = {}
    for cls in sorted(_all_subclasses(Serializable, set()), key=lambda item: (item.__module__, item.__qualname__)):
        if cls.__module__.startswith('cryptoparser.') and 'post_text_encoder' not in cls.__dict__:
            installed[cls] = Encoder()
            cls.post_text_encoder = installed[cls]
    installed[Serializable] = Serializable.__dict__['post_text_encoder']
    return installed


def _encoders_intact(installed):
    for cls, encoder in installed.items():
        if cls.__dict__.get('post_text_encoder') is not encoder:
            return cls
    return None


def _remove_encoders(installed):
    from cryptoparser.common.base import Serializable  # pylint: disable=import-outside-toplevel
    for cls in installed:
        if cls is not Serializable and 'post_text_encoder' in cls.__dict__:
            del cls.post_text_encoder


ENCODERS = {}


def setup(params):  # pylint: disable=unused-argument
    """run once per shard process, before the analysis starts (not once per path)"""
    if not ENCODERS:
        ENCODERS.update(_install_encoders())


def _same_result(left, right):
    if isinstance(left, (bytes, str, int, tuple)) or left is None:
        return left == right
    return deep_eq(left, right)


def purity(val: int) -> bool:
    """post: _"""
    if not 0 <= val < 256:
        return True
    if P.get('ALPHABET') and not any([val == char for char in P['ALPHABET']]):  # pylint: disable=use-a-generator
        return True
    cls = registry.resolve(P['CLASS'])
    seed = bytes.fromhex(P['SEED'])
    pos = P['POS']
    data = seed[:pos] + bytes([val]) + seed[pos + 1:]
    try:
        obj = cls.parse_exact_size(data)
        snapshot = cls.parse_exact_size(data)     # an independent object with the same content
    except Exception:  # pylint: disable=broad-except
        return True
    names = [name for name in OBSERVERS if getattr(type(obj), name, None) is not None]
    first = {}
    encoders = ENCODERS
    for name in names:
        first[name] = _observe(obj, name)
        if not deep_eq(obj, snapshot):
            api.note('%s changed the object' % name)
            return False
    reach()
    damaged = _encoders_intact(encoders)
    if damaged is not None:
        api.note('the observers changed class-level state: post_text_encoder of %s' % damaged.__name__)
        return False
    # second round in reverse order (every observer has by now run after every other one): same results, object
    # still untouched
    for name in reversed(names):
        if not _same_result(_observe(obj, name), first[name]):
            api.note('%s: result changed on repetition' % name)
            return False
    return deep_eq(obj, snapshot)


def hello_at_ceiling():
    """concrete (a 32767-item vector is beyond the engine's recursion limit): observers that fail because a size
    bound is reached must not leave the object changed"""
    import datetime  # pylint: disable=import-outside-toplevel
    from cryptodatahub.tls.algorithm import TlsCipherSuite  # pylint: disable=import-outside-toplevel
    from cryptoparser.tls.subprotocol import (  # pylint: disable=import-outside-toplevel
        TlsHandshakeClientHello, TlsHandshakeHelloRandom, TlsHandshakeHelloRandomBytes,
    )
    problems = []
    for slack in (0, 1, 2):
        for fallback in (False, True):
            for renegotiation in (False, True):
                suites = [TlsCipherSuite.TLS_AES_128_GCM_SHA256] * (32767 - slack)
                hello = TlsHandshakeClientHello(
                    suites, random=TlsHandshakeHelloRandom(datetime.datetime(2020, 1, 2),
                                                           TlsHandshakeHelloRandomBytes(list(range(28)))),
                    fallback_scsv=fallback, empty_renegotiation_info_scsv=renegotiation)
                results = []
                for _ in range(2):
                    try:
                        results.append(bytes(hello.compose()))
                    except PARSE_ERRORS as exc:
                        results.append(type(exc).__name__)
                    if len(hello.cipher_suites) != 32767 - slack:
                        problems.append('%d suites, fallback=%s renegotiation=%s: %d cipher suites after compose' % (
                            32767 - slack, fallback, renegotiation, len(hello.cipher_suites)))
                        break
                if len(results) == 2 and results[0] != results[1]:
                    problems.append('%d suites, fallback=%s renegotiation=%s: second compose differs' % (
                        32767 - slack, fallback, renegotiation))
    return problems


def aliasing(val: int, index: int, newval: int) -> bool:
    """post: _"""
    if not (0 <= val < 256 and 0 <= newval < 256):
        return True
    cls = registry.resolve(P['CLASS'])
    seed = bytes.fromhex(P['SEED'])
    if not 0 <= index < len(seed):
        return True
    pos = P['POS']
    buf = bytearray(seed[:pos] + bytes([val]) + seed[pos + 1:])
    try:
        snapshot = cls.parse_exact_size(bytes(buf))
        if P['ENTRY'] == 'parse_mutable':
            keep = bytearray(buf)
            obj = cls.parse_mutable(buf)
            buf = keep if len(buf) == 0 else buf
        else:
            obj = getattr(cls, P['ENTRY'])(buf)
            if P['ENTRY'] == 'parse_immutable':
                obj = obj[0]
    except Exception:  # pylint: disable=broad-except
        return True
    composed = _observe(obj, 'compose')
    reach()
    if index < len(buf):
        buf[index] = newval
    del buf[:]
    return deep_eq(obj, snapshot) and _same_result(_observe(obj, 'compose'), composed)


# --- (c) shared defaults: native enumeration ----------------------------------------------------------------------------

def _mutable_parts(value, found, depth=0):
    """ids of the mutable containers reachable from value"""
    from cryptoparser.common.base import ArrayBase  # pylint: disable=import-outside-toplevel
    import attr  # pylint: disable=import-outside-toplevel
    if depth > 4:
        return
    if isinstance(value, (bytearray, list, dict, set)):
        found[id(value)] = value
        items = value.values() if isinstance(value, dict) else (value if not isinstance(value, bytearray) else [])
        for item in items:
            _mutable_parts(item, found, depth + 1)
    elif isinstance(value, ArrayBase):
        _mutable_parts(value._items, found, depth + 1)  # pylint: disable=protected-access
    elif attr.has(type(value)) and not getattr(type(value), '__attrs_attrs__', None) is None:
        # (scalar component objects such as a shared `secure=False` flag object are not containers: re-assigning
        # their attribute is outside this check; what is looked for is shared *container* state)
        for field in attr.fields(type(value)):
            try:
                _mutable_parts(getattr(value, field.name), found, depth + 1)
            except Exception:  # pylint: disable=broad-except
                continue


def shared_defaults():
    """for every seeded attrs class: two instances built with default arguments share no mutable object that comes
    from a default (objects the caller passed in for required fields are the caller's)"""
    import attr  # pylint: disable=import-outside-toplevel
    problems = []
    checked = 0
    for cls, _ in registry.seeded_classes():
        if not attr.has(cls):
            continue
        accepted = registry.accepted_seeds(cls)
        if not accepted:
            continue
        origin = accepted[0][1]
        fields = [field for field in attr.fields(cls) if field.init]
        defaulted = [field for field in fields if field.default is not attr.NOTHING]
        if not defaulted:
            continue
        required = {field.name.lstrip('_'): getattr(origin, field.name) for field in fields
                    if field.default is attr.NOTHING}
        try:
            first, second = cls(**required), cls(**required)
        except Exception:  # pylint: disable=broad-except
            continue
        checked += 1
        for field in defaulted:
            parts_a, parts_b = {}, {}
            _mutable_parts(getattr(first, field.name), parts_a)
            _mutable_parts(getattr(second, field.name), parts_b)
            shared = [parts_a[key] for key in parts_a if key in parts_b]
            if shared:
                problems.append('%s: two instances share the mutable default of %r (%s)' % (
                    cls.__name__, field.name, type(shared[0]).__name__))
    if checked < 5:
        problems.append('only %d classes with defaulted fields could be exercised' % checked)
    return problems


def observers_native():
    """concrete: every observer incl. as_json / fingerprints on every accepted seed, twice, object unchanged"""
    problems = []
    encoders = _install_encoders()
    for cls, _ in registry.seeded_classes():
        for data, obj in registry.accepted_seeds(cls)[:3]:
            damaged = _encoders_intact(encoders)
            if damaged is not None:
                problems.append('class-level state changed: post_text_encoder of %s is not the one installed (seen '
                                'before %s %s)' % (damaged.__name__, cls.__name__, data.hex()[:40]))
                _remove_encoders(encoders)
                encoders = _install_encoders()
            try:
                snapshot = copy.deepcopy(obj)
            except Exception:  # pylint: disable=broad-except
                continue
            for name in OBSERVERS + ['as_json', 'fingerprints']:
                if getattr(type(obj), name, None) is None:
                    continue
                try:
                    one, two = _observe(obj, name), _observe(obj, name)
                except Exception:  # pylint: disable=broad-except
                    continue        # totality of serialisation is C14's subject
                if not _same_result(one, two):
                    problems.append('%s.%s returns different results on repetition (%s)' % (cls.__name__, name,
                                                                                        data.hex()[:40]))
                if not deep_eq(obj, snapshot):
                    problems.append('%s.%s changes the object (%s)' % (cls.__name__, name, data.hex()[:40]))
                    break
    damaged = _encoders_intact(encoders)
    if damaged is not None:
        problems.append('class-level state changed: post_text_encoder of %s is not the one installed' % damaged.__name__)
    _remove_encoders(encoders)
    return problems


def sample_args(rng, kwargs):
    out = {}
    for name in kwargs:
        if name in ('val', 'newval'):
            out[name] = rng.choice(P['ALPHABET']) if P.get('ALPHABET') and name == 'val' else rng.randrange(256)
        elif name == 'index':
            out[name] = rng.randrange(0, max(1, len(P.get('SEED', '00')) // 2))
        elif name == 'slack':
            out[name] = rng.randrange(0, 3)
    return out


def shards(tier, seed):
    import random  # pylint: disable=import-outside-toplevel
    from symcheck.harness import windows  # pylint: disable=import-outside-toplevel
    rng = random.Random(seed)
    thorough = tier == 'thorough'
    out = []
    for cls, seeds in registry.seeded_classes():
        name = registry.class_name(cls)
        accepted = [data for data, _ in registry.accepted_seeds(cls)]
        if not accepted:
            continue
        data = min(accepted, key=lambda item: (len(item), item))
        if not data or len(data) > 200:
            continue
        obj = cls.parse_exact_size(data)
        if not hasattr(obj, 'compose'):
            continue
        rich = any(getattr(type(obj), item, None) is not None for item in ('ja3', 'hassh', 'key_tag'))
        short = name.replace('cryptoparser.', '')
        text = windows.is_text_class(name)
        positions = windows.thorough_positions(len(data), rng) if thorough else [rng.randrange(len(data))]
        if rich and not thorough:
            positions = sorted(set(positions + [rng.randrange(len(data)) for _ in range(3)]))
        for pos in positions:
            out.append(Shard(MOD, 'purity', 'pure/%s/p%d' % (short, pos),
                             {'CLASS': name, 'SEED': data.hex(), 'POS': pos,
                              'ALPHABET': (windows.ALPHABET + [data[pos]]) if (text and not thorough) else None},
                             90 if thorough else 20,
                             bounds='object parsed from an accepted %d-byte vector with byte %d symbolic: every ordered '
                                    'pair of observers (%s)' % (len(data), pos, ', '.join(
                                        item for item in OBSERVERS if getattr(type(obj), item, None) is not None)),
                             group='pure/' + short))
        entries = ['parse_mutable', 'parse_immutable'] if thorough else ['parse_mutable']
        if text and not thorough:
            entries = []      # text parsers decode into str objects: nothing of the buffer can be kept
        for entry in entries:
            out.append(Shard(MOD, 'aliasing', 'alias/%s/%s' % (short, entry),
                             {'CLASS': name, 'SEED': data.hex(), 'POS': positions[-1], 'ENTRY': entry}, 90 if thorough else 30,
                             bounds='parsed through %s from a bytearray (byte %d symbolic); afterwards a symbolic index '
                                    'of the buffer is overwritten with a symbolic value and the buffer cleared' % (
                                        entry, positions[-1]), group='alias/' + short))
    out.append(Shard(MOD, 'hello_at_ceiling', 'hello_at_ceiling', {}, kind='concrete',
                     bounds='client hello whose cipher suite vector is 0..2 items below its ceiling x both SCSV flags: '
                            'compose twice (natively)'))
    out.append(Shard(MOD, 'shared_defaults', 'shared_defaults', {}, kind='concrete',
                     bounds='every seeded attrs class with defaulted fields: construct, edit defaults in place, '
                            'construct again (natively)'))
    out.append(Shard(MOD, 'observers_native', 'observers_native', {}, kind='concrete',
                     bounds='every observer incl. as_json and fingerprints on up to 3 accepted vectors per class, twice'))
    return out
