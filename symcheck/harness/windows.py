# -*- coding: utf-8 -*-
"""Seeded symbolic windows (W) and unconstrained short buffers (U) over every parsable class.

MODE 'c02': only the four documented parse errors may escape a parse entry point.
MODE 'rt' : C01/C05 chain on accepted inputs: compose succeeds, is accepted again consuming every
            byte, parses to a field-by-field equal object and re-composes to the same bytes.
MODE 'c03': generic clause 0 <= n <= len(buf); parse_mutable removes exactly n bytes;
            parse_exact_size succeeds iff n == len(buf); a failed parse leaves the buffer alone.
"""
import random

from symcheck import api
from symcheck.api import deep_eq, parse_errors, reach
from symcheck.harness import registry
from symcheck.runner import Shard

from cryptoparser.common.exception import TooMuchData

MOD = __name__
P = {}
PARSE_ERRORS = parse_errors()
_CLS = {}


def _get_class():
    name = P['CLASS']
    if name not in _CLS:
        _CLS[name] = registry.resolve(name)
    return _CLS[name]


def _judge(cls, data):  # pylint: disable=too-many-return-statements,too-many-branches
    mode = P['MODE']
    if mode == 'c02':
        entry = P.get('ENTRY', 'parse_immutable')
        try:
            if entry == 'parse_mutable':
                cls.parse_mutable(bytearray(data))
            else:
                getattr(cls, entry)(data)
        except PARSE_ERRORS:
            reach()
            return True
        except Exception as exc:  # pylint: disable=broad-except
            return api.escaped(exc)
        reach()
        return True
    try:
        obj, size = cls.parse_immutable(data)
    except Exception:  # pylint: disable=broad-except
        if mode == 'c03':
            mutable = bytearray(data)
            try:
                cls.parse_mutable(mutable)
            except Exception:  # pylint: disable=broad-except
                reach()
                return bytes(mutable) == data
            return False
        return True
    if mode == 'c03':
        reach()
        if not 0 <= size <= len(data):
            return False
        mutable = bytearray(data)
        cls.parse_mutable(mutable)
        if bytes(mutable) != data[size:]:
            return False
        try:
            cls.parse_exact_size(data)
            exact = True
        except TooMuchData:
            exact = False
        return exact == (size == len(data))
    # mode 'rt'
    if not hasattr(obj, 'compose'):
        return True     # code-point factories yield bare enum members; their encoding is C10's subject
    try:
        composed = bytes(obj.compose())
    except Exception as exc:  # pylint: disable=broad-except
        return api.escaped(exc)
    reach()
    try:
        obj2 = cls.parse_exact_size(composed)
    except Exception as exc:  # pylint: disable=broad-except
        return api.escaped(exc)
    if not deep_eq(obj2, obj):
        api.note('re-parsed object differs')
        return False
    return bytes(obj2.compose()) == composed


def window1(val: int) -> bool:
    """post: _"""
    if not 0 <= val < 256:
        return True
    seed = bytes.fromhex(P['SEED'])
    pos = P['POS']
    data = seed[:pos] + bytes([val]) + seed[pos + 1:]
    return _judge(_get_class(), data)


# boundary characters for text formats: controls, separators, quotes, digits, letters, DEL and non-ASCII bytes
ALPHABET = [0, 9, 10, 13, 32, 34, 37, 44, 45, 47, 48, 57, 58, 59, 61, 64, 65, 92, 122, 127, 128, 255]


def window1a(val: int) -> bool:
    """post: _"""
    seed = bytes.fromhex(P['SEED'])
    pos = P['POS']
    if not any([val == char for char in ALPHABET + [seed[pos]]]):  # pylint: disable=use-a-generator
        return True
    data = seed[:pos] + bytes([val]) + seed[pos + 1:]
    return _judge(_get_class(), data)


def window2(val_a: int, val_b: int) -> bool:
    """post: _"""
    if not (0 <= val_a < 256 and 0 <= val_b < 256):
        return True
    seed = bytes.fromhex(P['SEED'])
    pos = P['POS']
    data = seed[:pos] + bytes([val_a, val_b]) + seed[pos + 2:]
    return _judge(_get_class(), data)


def truncated(dummy: int) -> bool:
    """post: _"""
    # concrete: every proper prefix of the seed (degenerate lengths); cheap, rides on the same judge
    seed = bytes.fromhex(P['SEED'])
    cls = _get_class()
    for cut in range(len(seed)):
        if not _judge(cls, seed[:cut]):
            return False
    reach()
    return True


def truncated_native():
    """every proper prefix of every accepted vector (up to 3 per class), natively, through the judge of P['MODE']"""
    problems = []
    thorough = P.get('TIER') == 'thorough'
    saved = dict(P)
    for cls, seeds in registry.seeded_classes():
        name = registry.class_name(cls)
        accepted = []
        for data in seeds:
            try:
                cls.parse_exact_size(data)
                accepted.append(data)
            except Exception:  # pylint: disable=broad-except
                continue
        accepted.sort(key=lambda item: (len(item), item))
        for data in accepted[:3 if thorough else 1]:
            if len(data) > (400 if thorough else 120):
                continue
            P.update(CLASS=name, SEED=data.hex())
            for cut in range(len(data)):
                try:
                    if not _judge(cls, data[:cut]):
                        problems.append('%s: prefix of %d bytes of %s violates the %s clauses' % (
                            name, cut, data.hex()[:60], P['MODE']))
                        break
                except api.Escaped as exc:
                    problems.append('%s: %s escapes from %s for the %d-byte prefix of %s' % (
                        name, exc.etype, exc.site_fn, cut, data.hex()[:60]))
                    break
            if len(problems) > 20:
                break
    P.clear()
    P.update(saved)
    return problems


EXTREMES = {
    1: [b'\x00', b'\x01', b'\x7f', b'\x80', b'\xfe', b'\xff'],
    2: [b'\x00\x00', b'\x7f\xff', b'\x80\x00', b'\xff\xfe', b'\xff\xff'],
    4: [b'\x00\x00\x00\x00', b'\x7f\xff\xff\xff', b'\x80\x00\x00\x00', b'\xff\xff\xff\xfe', b'\xff\xff\xff\xff',
        b'\x00\x01\x00\x00'],
    8: [8 * b'\x00', b'\x7f' + 7 * b'\xff', b'\x80' + 7 * b'\x00', 7 * b'\xff' + b'\xfe', 8 * b'\xff',
        b'\x00\x00\x01' + 5 * b'\x00',
        b'\x00\x00\x00\x01\x00\x00\x00\x00'],
}


def _extreme_one(job):
    name, mode = job
    P.clear()
    P.update(MODE=mode, CLASS=name)
    cls = registry.resolve(name)
    accepted = [data for data, _ in registry.accepted_seeds(cls)]
    if not accepted:
        return []
    data = min(accepted, key=lambda item: (len(item), item))
    if not 1 <= len(data) <= 400:
        return []
    if mode == 'rt' and not hasattr(cls.parse_exact_size(data), 'compose'):
        return []
    found = {}
    for width, patterns in sorted(EXTREMES.items()):
        for offset in range(0, len(data) - width + 1):
            for pattern in patterns:
                variant = data[:offset] + pattern + data[offset + width:]
                del api.NOTES[:]
                try:
                    if not _judge(cls, variant):
                        key = ('false', '; '.join(api.NOTES)[:60])
                        found.setdefault(key, '%s: bytes %d..%d = %s of %s: %s' % (
                            name, offset, offset + width - 1, pattern.hex(), data.hex()[:80],
                            '; '.join(api.NOTES)[:200] or 'the %s clauses fail' % mode))
                except api.Escaped as exc:
                    found.setdefault((exc.etype, exc.site_fn), '%s: %s escapes from %s for bytes %d..%d = %s of %s' % (
                        name, exc.etype, exc.site_fn, offset, offset + width - 1, pattern.hex(), data.hex()[:80]))
    return sorted(found.values())


def extreme_fields():
    """concrete: every 2-, 4- and 8-byte field position of the shortest accepted vector of every seeded class set to
    the ends of its signed / unsigned range (timestamps, lengths, counts: magnitudes a one-byte window cannot
    reach), through the judge of P['MODE']"""
    import multiprocessing  # pylint: disable=import-outside-toplevel
    mode = P['MODE']
    jobs = [(registry.class_name(cls), mode) for cls, _ in registry.seeded_classes()]
    with multiprocessing.get_context('fork').Pool(16) as pool:
        rows = pool.map(_extreme_one, jobs, chunksize=4)
    P['MODE'] = mode
    problems = []
    for row in rows:
        problems.extend(row)
    return problems[:40]


def unconstrained(data: bytes) -> bool:
    """post: _"""
    if len(data) > P['L']:
        return True
    prefix = bytes.fromhex(P.get('PREFIX', ''))
    if 'SUFFIX' in P:
        if len(data) != P['L']:
            return True     # the lengths inside the prefix count on a tail of exactly this size
        return _judge(_get_class(), prefix + data + bytes.fromhex(P['SUFFIX']))
    return _judge(_get_class(), prefix + data)


def sample_args(rng, kwargs):
    out = {}
    for name in kwargs:
        if name.startswith('val'):
            out[name] = rng.randrange(256)
    return out


# ------------------------------------------------------------------------------------------------------------------

def _positions(seed, tier, rng, per_seed):
    length = len(seed)
    if tier == 'thorough' or length <= per_seed:
        return list(range(length))
    head = list(range(min(2, length)))
    rest = [idx for idx in range(length) if idx not in head]
    rng.shuffle(rest)
    return sorted(head + rest[:per_seed - len(head)])


TEXT_MODULES = ('cryptoparser.httpx.', 'cryptoparser.dnsrec.txt', 'cryptoparser.common.field',
                'cryptoparser.common.classes', 'cryptoparser.ssh.version')


def is_text_class(name):
    return name.startswith(TEXT_MODULES)


def thorough_positions(length, rng, limit=8):
    """every position of a vector of up to `limit` bytes; of a longer one the first 4 (headers, lengths, types) and
    4 more drawn with the seed, so that repeated thorough runs with different VERIF_SEED values cover the rest"""
    if length <= limit:
        return list(range(length))
    head = limit // 2
    rest = list(range(head, length))
    rng.shuffle(rest)
    return sorted(list(range(head)) + rest[:limit - head])


def window_shards(mode, tier, seed_value, per_seed=2, timeout=15, tag='w'):  # pylint: disable=too-many-arguments,too-many-locals,too-many-branches
    """quick: shortest accepted seed per class, `per_seed` positions (first byte + rotated); binary classes get all
    256 values of the byte, text classes the ALPHABET of boundary characters.  thorough: one seed per class (two when
    short), thorough_positions() of each, all 256 values, plus two-byte windows on the first two positions."""
    rng = random.Random(seed_value)
    thorough = tier == 'thorough'
    out = []
    for cls, seeds in registry.seeded_classes():
        name = registry.class_name(cls)
        accepted = []
        for data in seeds:
            try:
                cls.parse_exact_size(data)
                accepted.append(data)
            except Exception:  # pylint: disable=broad-except
                continue
        if not accepted:
            continue
        if mode == 'rt' and not hasattr(cls.parse_exact_size(accepted[0]), 'compose'):
            continue    # code-point factories yield bare enum members; their encoding is C10's subject
        accepted.sort(key=lambda item: (len(item), item))
        chosen = accepted[:2] if (thorough and len(accepted[0]) <= 6) else accepted[:1]
        short = name.replace('cryptoparser.', '')
        text = is_text_class(name)
        for sidx, data in enumerate(chosen):
            if len(data) > (400 if thorough else 120) or not data:
                continue
            if thorough:
                positions = thorough_positions(len(data), rng)
            else:
                rest = list(range(1, len(data)))
                rng.shuffle(rest)
                positions = sorted([0] + rest[:per_seed - 1])
            for pos in positions:
                fn = 'window1' if (thorough or not text) else 'window1a'
                what = 'all 256 values' if fn == 'window1' else 'the original and %d boundary characters' % len(ALPHABET)
                out.append(Shard(
                    MOD, fn, '%s/%s/s%d/p%d' % (tag, short, sidx, pos),
                    {'MODE': mode, 'CLASS': name, 'SEED': data.hex(), 'POS': pos},
                    timeout=(90 if text else 45) if thorough else timeout,
                    bounds='%s of byte %d of an accepted %d-byte vector' % (what, pos, len(data)),
                    group='%s/%s' % (tag, short), twin=(mode != 'c02')))
            if thorough and not text:
                for pos in range(0, min(len(data) - 1, 1)):
                    out.append(Shard(
                        MOD, 'window2', '%s2/%s/s%d/p%d' % (tag, short, sidx, pos),
                        {'MODE': mode, 'CLASS': name, 'SEED': data.hex(), 'POS': pos}, timeout=90,
                        bounds='all 65536 values of bytes %d..%d of an accepted %d-byte vector' % (
                            pos, pos + 1, len(data)),
                        group='%s2/%s' % (tag, short)))
    out.append(Shard(MOD, 'extreme_fields', '%s-extremes' % tag, {'MODE': mode}, kind='concrete',
                     bounds='every 1-, 2-, 4- and 8-byte field position of the shortest accepted vector of every seeded '
                            'class set to 00..00, 7f..ff, 80..00, ff..fe, ff..ff, 00..0100..00 (natively)'))
    if mode in ('c02', 'c03'):
        out.append(Shard(MOD, 'truncated_native', '%s-trunc' % tag, {'MODE': mode, 'TIER': tier}, kind='concrete',
                         bounds='every proper prefix of the shortest accepted vector(s) of every seeded class (natively)'))
    return out


def unconstrained_shards(mode, tier, calibration, timeout=10):
    out = []
    for cls in registry.leaf_parsable_classes():
        name = registry.class_name(cls)
        short = name.replace('cryptoparser.', '')
        if tier == 'thorough':
            length = 6 if not is_text_class(name) else 3
        elif name not in calibration:
            continue    # not exhaustible within the quick cap even at L=2; left to the windows and the thorough tier
        else:
            length = calibration[name]
        out.append(Shard(MOD, 'unconstrained', 'u/%s/L%d' % (short, length),
                         {'MODE': mode, 'CLASS': name, 'L': length}, timeout=120 if tier == 'thorough' else timeout,
                         bounds='every byte string of length <= %d' % length, group='u/%s' % short))
    return out
