# -*- coding: utf-8 -*-
"""Seeded symbolic windows (W) and unconstrained short buffers (U) over every parsable class.

MODE 'c02': only the four documented parse errors may escape a parse entry point.
MODE 'rt' : C01/C05 chain on accepted inputs: compose succeeds, is accepted again consuming every
            byte, parses to a field-by-field equal object and re-composes to the same bytes.
MODE 'c03': generic clause 0 <= n <= len(buf); parse_mutable removes exactly n bytes;
            parse_exact_size succeeds iff n == len(buf); a failed parse leaves the buffer alone.
"""
import random

from symcheck import api
from symcheck.api import deep_eq, parse_errors, reach
from symcheck.harness import registry
from symcheck.runner import Shard

from cryptoparser.common.exception import TooMuchData

MOD = __name__
P = {}
PARSE_ERRORS = parse_errors()
_CLS = {}


def _get_class():
    name = P['CLASS']
    if name not in _CLS:
        _CLS[name] = registry.resolve(name)
    return _CLS[name]


def _judge(cls, data):  # pylint: disable=too-many-return-statements,too-many-branches
    mode = P['MODE']
    if mode == 'c02':
        entry = P.get('ENTRY', 'parse_immutable')
        try:
            if entry == 'parse_mutable':
                cls.parse_mutable(bytearray(data))
            else:
                getattr(cls, entry)(data)
        except PARSE_ERRORS:
            reach()
            return True
        except Exception as exc:  # pylint: disable=broad-except
            if api.tolerated(exc):
                return True
            raise
        reach()
        return True
    try:
        obj, size = cls.parse_immutable(data)
    except Exception:  # pylint: disable=broad-except
        if mode == 'c03':
            mutable = bytearray(data)
            try:
                cls.parse_mutable(mutable)
            except Exception:  # pylint: disable=broad-except
                reach()
                return bytes(mutable) == data
            return False
        return True
    if mode == 'c03':
        reach()
        if not 0 <= size <= len(data):
            return False
        mutable = bytearray(data)
        cls.parse_mutable(mutable)
        if bytes(mutable) != data[size:]:
            return False
        try:
            cls.parse_exact_size(data)
            exact = True
        except TooMuchData:
            exact = False
        return exact == (size == len(data))
    # mode 'rt'
    try:
        composed = bytes(obj.compose())
    except Exception as exc:  # pylint: disable=broad-except
        if api.tolerated(exc):
            return True
        raise
    reach()
    try:
        obj2 = cls.parse_exact_size(composed)
    except Exception as exc:  # pylint: disable=broad-except
        if api.tolerated(exc):
            return True
        raise
    if not deep_eq(obj2, obj):
        api.note('re-parsed object differs')
        return False
    return bytes(obj2.compose()) == composed


def window1(val: int) -> bool:
    """post: _"""
    if not 0 <= val < 256:
        return True
    seed = bytes.fromhex(P['SEED'])
    pos = P['POS']
    data = seed[:pos] + bytes([val]) + seed[pos + 1:]
    return _judge(_get_class(), data)


def window2(val_a: int, val_b: int) -> bool:
    """post: _"""
    if not (0 <= val_a < 256 and 0 <= val_b < 256):
        return True
    seed = bytes.fromhex(P['SEED'])
    pos = P['POS']
    data = seed[:pos] + bytes([val_a, val_b]) + seed[pos + 2:]
    return _judge(_get_class(), data)


def truncated(dummy: int) -> bool:
    """post: _"""
    # concrete: every proper prefix of the seed (degenerate lengths); cheap, rides on the same judge
    seed = bytes.fromhex(P['SEED'])
    cls = _get_class()
    for cut in range(len(seed)):
        if not _judge(cls, seed[:cut]):
            return False
    reach()
    return True


def unconstrained(data: bytes) -> bool:
    """post: _"""
    if len(data) > P['L']:
        return True
    prefix = bytes.fromhex(P.get('PREFIX', ''))
    return _judge(_get_class(), prefix + data)


# ------------------------------------------------------------------------------------------------------------------

def _positions(seed, tier, rng, per_seed):
    length = len(seed)
    if tier == 'thorough' or length <= per_seed:
        return list(range(length))
    head = list(range(min(2, length)))
    rest = [idx for idx in range(length) if idx not in head]
    rng.shuffle(rest)
    return sorted(head + rest[:per_seed - len(head)])


def window_shards(mode, tier, seed_value, per_seed=4, timeout=25, tag='w'):
    rng = random.Random(seed_value)
    out = []
    for cls, seeds in registry.seeded_classes():
        name = registry.class_name(cls)
        accepted = []
        for data in seeds:
            try:
                cls.parse_exact_size(data)
                accepted.append(data)
            except Exception:  # pylint: disable=broad-except
                continue
        if not accepted:
            continue
        accepted.sort(key=lambda item: (len(item), item))
        chosen = accepted if tier == 'thorough' else accepted[:1] + ([accepted[-1]] if len(accepted) > 1 and
                                                                      len(accepted[-1]) <= 64 else [])
        short = name.replace('cryptoparser.', '')
        for sidx, data in enumerate(chosen):
            if len(data) > (600 if tier == 'thorough' else 120):
                continue
            for pos in _positions(data, tier, rng, per_seed):
                out.append(Shard(
                    MOD, 'window1', '%s/%s/s%d/p%d' % (tag, short, sidx, pos),
                    {'MODE': mode, 'CLASS': name, 'SEED': data.hex(), 'POS': pos},
                    timeout=60 if tier == 'thorough' else timeout,
                    bounds='all 256 values of byte %d of an accepted %d-byte vector' % (pos, len(data)),
                    group='%s/%s' % (tag, short)))
            if tier == 'thorough':
                for pos in range(0, min(len(data) - 1, 6)):
                    out.append(Shard(
                        MOD, 'window2', '%s2/%s/s%d/p%d' % (tag, short, sidx, pos),
                        {'MODE': mode, 'CLASS': name, 'SEED': data.hex(), 'POS': pos}, timeout=90,
                        bounds='all 65536 values of bytes %d..%d of an accepted %d-byte vector' % (
                            pos, pos + 1, len(data)),
                        group='%s2/%s' % (tag, short)))
            if mode in ('c02', 'c03'):
                out.append(Shard(MOD, 'truncated', '%s-trunc/%s/s%d' % (tag, short, sidx),
                                 {'MODE': mode, 'CLASS': name, 'SEED': data.hex()}, timeout=60,
                                 bounds='every proper prefix of an accepted %d-byte vector (concrete)' % len(data),
                                 group='%s-trunc/%s' % (tag, short)))
    return out


def unconstrained_shards(mode, tier, calibration, timeout=12):
    out = []
    for cls in registry.leaf_parsable_classes():
        name = registry.class_name(cls)
        short = name.replace('cryptoparser.', '')
        if tier == 'thorough':
            length = 6
        else:
            length = calibration.get(name, 1)
        out.append(Shard(MOD, 'unconstrained', 'u/%s/L%d' % (short, length),
                         {'MODE': mode, 'CLASS': name, 'L': length}, timeout=120 if tier == 'thorough' else timeout,
                         bounds='every byte string of length <= %d' % length, group='u/%s' % short))
    return out
