# -*- coding: utf-8 -*-
"""C08 - DNSSEC and mail-related DNS record data follow the RFCs, key tag included.

Oracle: symcheck/refs/dns_ref.py.  The key tag is decided on the real DnsRecordDnskey.key_tag with compose()
replaced, for that harness only, by a symbolic RDATA of concrete length (compose is the environment of key_tag; its
own layout is decided by the layout harnesses).  S-key as in c07_ssh (parameter container for PublicKey).
"""
from symcheck import api
from symcheck.api import parse_errors, reach
from symcheck.refs import dns_ref as ref
from symcheck.runner import Shard

MOD = __name__
P = {}
PARSE_ERRORS = parse_errors()


def key_tag(rdata: bytes) -> bool:
    """post: _"""
    from cryptodatahub.dnsrec.algorithm import DnsSecAlgorithm  # pylint: disable=import-outside-toplevel
    from cryptoparser.dnsrec.record import DnsRecordDnskey  # pylint: disable=import-outside-toplevel
    if len(rdata) != P['L']:
        return True

    class _Record(DnsRecordDnskey):  # pylint: disable=too-few-public-methods
        def compose(self):
            return rdata

    record = object.__new__(_Record)
    record.algorithm = DnsSecAlgorithm.RSASHA256
    reach()
    return record.key_tag == ref.key_tag(rdata)


def key_tag_rsamd5(modulus: int) -> bool:
    """post: _"""
    from cryptodatahub.dnsrec.algorithm import DnsSecAlgorithm  # pylint: disable=import-outside-toplevel
    from cryptoparser.dnsrec.record import DnsRecordDnskey  # pylint: disable=import-outside-toplevel
    if not 0 <= modulus < 2 ** 40:
        return True

    class _Params(object):  # pylint: disable=too-few-public-methods
        pass

    record = object.__new__(DnsRecordDnskey)
    record.algorithm = DnsSecAlgorithm.RSAMD5
    record.key = _Params()
    record.key.params = _Params()
    record.key.params.modulus = modulus
    reach()
    return record.key_tag == ref.key_tag_rsamd5(modulus)


# --- S-key for DNSKEY (needs key_type / key_size besides params) ------------------------------------------------------

def _install_key_stub():
    import cryptoparser.dnsrec.record as record_mod  # pylint: disable=import-outside-toplevel
    from cryptodatahub.common.algorithm import Authentication  # pylint: disable=import-outside-toplevel
    real = record_mod.PublicKey
    if getattr(real, '_symcheck_stub', False):
        return

    class KeyContainer(real):
        _symcheck_stub = True
        _real = real

        def __init__(self, params):     # pylint: disable=super-init-not-called
            object.__setattr__(self, '_params', params)

        @classmethod
        def from_params(cls, params):
            return cls(params)

        @property
        def params(self):
            return self._params

        @property
        def key_type(self):
            name = type(self._params).__name__
            return {'PublicKeyParamsRsa': Authentication.RSA, 'PublicKeyParamsEcdsa': Authentication.ECDSA,
                    'PublicKeyParamsEddsa': Authentication.EDDSA, 'PublicKeyParamsDsa': Authentication.DSS}[name]

        @property
        def key_size(self):
            name = type(self._params).__name__
            if name == 'PublicKeyParamsRsa':
                # asn1crypto: bit length of the modulus rounded up to whole bytes
                return P['MODLEN'] * 8
            if name == 'PublicKeyParamsEcdsa':
                return self._params.named_group.value.size
            if name == 'PublicKeyParamsEddsa':
                return len(self._params.key_data) * 8
            raise NotImplementedError(name)

        @property
        def der(self):     # a deterministic encoding of the parameters (stands in for the DER of the real key)
            import attr as _attr  # pylint: disable=import-outside-toplevel
            return repr(_attr.astuple(self._params, recurse=False)).encode('ascii', 'replace')

        def _asdict(self):
            return {}

    record_mod.PublicKey = KeyContainer


def _uninstall_key_stub():
    import cryptoparser.dnsrec.record as record_mod  # pylint: disable=import-outside-toplevel
    if getattr(record_mod.PublicKey, '_symcheck_stub', False):
        record_mod.PublicKey = record_mod.PublicKey._real  # pylint: disable=protected-access


def _flag_value(flags):
    total = 0
    for flag in flags:
        total += int(flag)
    return total


def dnskey_rsa(exponent: int, modulus: int, flags_index: int) -> bool:
    """post: _"""
    from cryptoparser.dnsrec.record import DnsRecordDnskey  # pylint: disable=import-outside-toplevel
    explen, modlen = P['EXPLEN'], P['MODLEN']
    if not (2 ** (8 * explen - 8) <= exponent < 2 ** (8 * explen) and 2 ** (8 * modlen - 1) <= modulus < 2 ** (8 * modlen)):
        return True       # canonical RFC 3110 form: no leading zero octets in the exponent, full-size modulus
    if explen == 1 and not any([exponent == item for item in (3, 17, 255)]):  # pylint: disable=use-a-generator
        return True       # (a fully symbolic one-byte exponent sends the engine into value-by-value realisation)
    flag_words = [0x0000, 0x0100, 0x0101, 0x0180, 0x0181, 0x0001, 0x0080, 0x0081]
    if not 0 <= flags_index < len(flag_words):
        return True
    if P['DIM'] == 'flags' and (exponent != 2 ** (8 * explen) - 1 or modulus != 2 ** (8 * modlen) - 1):
        return True
    if P['DIM'] != 'flags' and flags_index != 1:
        return True
    flags = flag_words[flags_index]
    wire = ref.dnskey(flags, 3, P['ALG'], ref.rsa_key(exponent, explen, modulus, modlen))
    _install_key_stub()
    try:
        try:
            record = DnsRecordDnskey.parse_exact_size(wire)
        except PARSE_ERRORS:
            return False
        reach()
        if _flag_value(record.flags) != flags or record.algorithm.value.code != P['ALG']:
            return False
        if (record.key.params.public_exponent, record.key.params.modulus) != (exponent, modulus):
            return False
        if bytes(record.compose()) != wire:
            api.note('composed %s' % bytes(record.compose()).hex())
            return False
        # (the key tag clause has its own harness; here only for even RDATA lengths, see the known finding on odd ones)
        return len(wire) % 2 == 1 or record.key_tag == ref.key_tag(wire)
    finally:
        _uninstall_key_stub()


def dnskey_curve(first: int, second: int, data: bytes) -> bool:
    """post: _"""
    from cryptoparser.dnsrec.record import DnsRecordDnskey  # pylint: disable=import-outside-toplevel
    kind = P['KIND']
    if kind == 'ecdsa':
        size = P['SIZE']
        bits = P['BITS']
        if not (0 <= first < 2 ** bits and 0 <= second < 2 ** bits) or data != b'':
            return True
        key = ref.ecdsa_key(first * 2 ** (8 * size - bits) + 1 if P['HIGH'] else first, second, size)
        expected = (first * 2 ** (8 * size - bits) + 1 if P['HIGH'] else first, second)
    else:
        if first != 0 or second != 0 or len(data) > 2:
            return True
        key = data + bytes(range(P['SIZE'] - len(data)))
        expected = key
    wire = ref.dnskey(0x0101, 3, P['ALG'], key)
    _install_key_stub()
    try:
        try:
            record = DnsRecordDnskey.parse_exact_size(wire)
        except PARSE_ERRORS:
            return False
        reach()
        if kind == 'ecdsa':
            if (record.key.params.point_x, record.key.params.point_y) != expected:
                return False
        elif bytes(record.key.params.key_data) != expected:
            return False      # trailing key bytes dropped?
        if bytes(record.compose()) != wire:
            return False
        return record.key_tag == ref.key_tag(wire) or len(wire) % 2 == 1
    finally:
        _uninstall_key_stub()


def ds_record(tag: int, alg_index: int, digest_index: int, digest: bytes) -> bool:
    """post: _"""
    from cryptodatahub.dnsrec.algorithm import DnsSecAlgorithm, DnsSecDigestType  # pylint: disable=import-outside-toplevel
    from cryptoparser.dnsrec.record import DnsRecordDs  # pylint: disable=import-outside-toplevel
    algorithms, digests = list(DnsSecAlgorithm), list(DnsSecDigestType)
    if not (0 <= tag < 65536 and 0 <= alg_index < len(algorithms) and 0 <= digest_index < len(digests) and
            len(digest) <= 3):
        return True
    if P['DIM'] == 'alg' and (tag != 7 or digest_index != 1 or digest != b''):
        return True
    if P['DIM'] == 'tag' and (alg_index != 3 or digest_index != 1):
        return True
    if P['DIM'] == 'digest_type' and (tag != 7 or alg_index != 3 or digest != b''):
        return True
    algorithm, digest_type = algorithms[alg_index], digests[digest_index]
    wire = ref.ds(tag, algorithm.value.code, digest_type.value.code, digest)
    built = DnsRecordDs(tag, algorithm, digest_type, digest)
    if bytes(built.compose()) != wire:
        return False
    parsed = DnsRecordDs.parse_exact_size(wire)
    reach()
    return (parsed.key_tag == tag and parsed.algorithm is algorithm and parsed.digest_type is digest_type and
            bytes(parsed.digest) == digest)


def rrsig_record(type_covered: int, labels: int, ttl: int, tag: int, when: int) -> bool:
    """post: _"""
    import cryptoparser.common.parse as parse_mod  # pylint: disable=import-outside-toplevel
    from cryptoparser.dnsrec.record import DnsRecordRrsig  # pylint: disable=import-outside-toplevel
    from symcheck.harness.c07_ssh import _ShimDatetime  # pylint: disable=import-outside-toplevel
    dim = P['DIM']
    if not (0 <= type_covered < 65536 and 0 <= labels < 256 and 0 <= ttl < 2 ** 32 and 0 <= tag < 65536 and
            0 <= when < 2 ** 32 - 1):
        return True
    defaults = {'type_covered': 1, 'labels': 2, 'ttl': 3600, 'tag': 4660, 'when': 1500000000}
    values = {'type_covered': type_covered, 'labels': labels, 'ttl': ttl, 'tag': tag, 'when': when}
    for name, default in defaults.items():
        if name != dim and not (dim == 'numbers' and name in ('labels', 'ttl', 'tag')) and values[name] != default:
            return True
    if dim == 'type_covered' and not (any([type_covered == code for code in P['TYPES']]) or  # pylint: disable=use-a-generator
                                      0xff00 <= type_covered <= 0xfffe):
        return True
    wire = ref.rrsig(type_covered, 8, labels, ttl, when, when // 2, tag, [b'example', b'com'], b'\x01\x02\x03')
    shim = P.get('SHIM', True)
    if shim:
        parse_mod.datetime = _ShimDatetime
    try:
        try:
            parsed = DnsRecordRrsig.parse_exact_size(wire)
        except PARSE_ERRORS:
            return False
    finally:
        if shim:
            import datetime as real_datetime  # pylint: disable=import-outside-toplevel
            parse_mod.datetime = real_datetime
    reach()
    covered = parsed.type_covered.value.code if hasattr(parsed.type_covered.value, 'code') else parsed.type_covered.value
    if covered != type_covered or (parsed.labels, parsed.original_ttl, parsed.key_tag) != (labels, ttl, tag):
        return False
    if parsed.signers_name.labels != ['example', 'com'] or bytes(parsed.signature) != b'\x01\x02\x03':
        return False
    if shim:
        return (parsed.signature_expiration.micro == when * 1000000 and
                parsed.signature_inception.micro == (when // 2) * 1000000)
    return bytes(parsed.compose()) == wire


def replay_rrsig_record(type_covered, labels, ttl, tag, when):
    P['SHIM'] = False
    return rrsig_record(type_covered, labels, ttl, tag, when)


def mx_txt_name(priority: int, first: bytes, second: bytes) -> bool:
    """post: _"""
    from cryptoparser.dnsrec import record  # pylint: disable=import-outside-toplevel
    if not (0 <= priority < 65536 and len(first) <= P['B'] and len(second) <= P['B']):
        return True
    if P['KIND'] != 'txt' and P.get('ONE') and second != b'b':
        return True
    for char in first + second:
        if not (97 <= char <= 122 or 48 <= char <= 57):
            return True
    kind = P['KIND']
    if kind == 'mx':
        labels = [item for item in (first, second, b'org') if item]
        wire = ref.mx(priority, labels)
        parsed = record.DnsRecordMx.parse_exact_size(wire)
        reach()
        if parsed.priority != priority or [item.encode('ascii') for item in parsed.exchange.labels] != labels:
            return False
        return bytes(parsed.compose()) == wire
    if kind == 'name':
        if priority != 0:
            return True
        labels = [item for item in (first, second) if item]
        wire = ref.name(labels)
        parsed, consumed = record.DnsNameUncompressed.parse_immutable(wire + b'\x07')
        reach()
        return consumed == len(wire) and [item.encode('ascii') for item in parsed.labels] == labels and bytes(
            parsed.compose()) == wire
    if priority != 0:
        return True
    wire = ref.txt([first, second])
    parsed = record.DnsRecordTxt.parse_exact_size(wire)
    reach()
    if parsed.value.encode('ascii') != first + second:
        return False
    return bytes(record.DnsRecordTxt((first + second).decode('ascii')).compose()) == ref.txt([first + second])


def txt_lengths():
    """concrete: TXT data at the character-string boundary (RFC 1035 3.3: <= 255 octets per string): the composed RDATA
    is the value cut into 255-octet strings - no more strings than needed - and parses back to the value"""
    from cryptoparser.dnsrec.record import DnsRecordTxt  # pylint: disable=import-outside-toplevel
    problems = []
    for length in (0, 1, 254, 255, 256, 509, 510, 511, 765, 1020):
        value = ''.join(chr(97 + idx % 26) for idx in range(length))
        raw = value.encode('ascii')
        expected = ref.txt([raw[offset:offset + 255] for offset in range(0, length, 255)] or [b''])
        try:
            composed = bytes(DnsRecordTxt(value).compose())
        except Exception as exc:  # pylint: disable=broad-except
            problems.append('TXT value of %d octets cannot be composed: %s' % (length, type(exc).__name__))
            continue
        if composed != expected:
            problems.append('TXT value of %d octets composes to %d octets of RDATA, RFC 1035 chunking gives %d' % (
                length, len(composed), len(expected)))
        try:
            parsed = DnsRecordTxt.parse_exact_size(expected)
            if parsed.value != value or bytes(parsed.compose()) != expected:
                problems.append('TXT RDATA for a value of %d octets does not survive parse + compose' % length)
        except Exception as exc:  # pylint: disable=broad-except
            problems.append('TXT RDATA for a value of %d octets is rejected: %s' % (length, type(exc).__name__))
    return problems


def key_sizes():
    """concrete: per-algorithm public key sizes of RFC 6605 / RFC 8080 and no dropped trailing bytes, real PublicKey"""
    from cryptoparser.dnsrec.record import DnsRecordDnskey  # pylint: disable=import-outside-toplevel
    problems = []
    for algorithm, size, what in ((13, 64, 'ECDSA P-256'), (14, 96, 'ECDSA P-384'), (15, 32, 'Ed25519'),
                                  (16, 57, 'Ed448')):
        key = bytes((idx * 7 + 1) % 256 for idx in range(size))
        wire = ref.dnskey(0x0101, 3, algorithm, key)
        try:
            record = DnsRecordDnskey.parse_exact_size(wire)
        except Exception as exc:  # pylint: disable=broad-except
            problems.append('%s key of %d bytes (RFC size) rejected: %s' % (what, size, type(exc).__name__))
            continue
        if bytes(record.compose()) != wire:
            problems.append('%s key of %d bytes does not compose back' % (what, size))
        if record.key_tag != ref.key_tag(wire):
            problems.append('%s: key tag %d, RFC 4034 Appendix B gives %d (RDATA of %d bytes)' % (
                what, record.key_tag, ref.key_tag(wire), len(wire)))
    # RFC 3110: exponent length in one octet up to 255 bytes, zero + two octets above
    for explen in (1, 3, 254, 255, 256, 300):
        exponent = (1 << (8 * explen - 1)) + 1
        modulus = (1 << 1023) + 12345
        wire = ref.dnskey(0x0100, 3, 8, ref.rsa_key(exponent, explen, modulus, 128))
        try:
            record = DnsRecordDnskey.parse_exact_size(wire)
        except Exception as exc:  # pylint: disable=broad-except
            problems.append('RSA key with %d-byte exponent rejected: %s' % (explen, type(exc).__name__))
            continue
        if (record.key.params.public_exponent, record.key.params.modulus) != (exponent, modulus):
            problems.append('RSA key with %d-byte exponent: parameters differ' % explen)
        if bytes(record.compose()) != wire:
            problems.append('RSA key with %d-byte exponent: composes to length form %s, RFC 3110 %s' % (
                explen, bytes(record.compose())[4:7].hex(), wire[4:7].hex()))
        elif len(wire) % 2 == 0 and record.key_tag != ref.key_tag(wire):
            problems.append('RSA key with %d-byte exponent: key tag' % explen)
    return problems


def sample_args(rng, kwargs):
    out = {}
    for name in kwargs:
        if name == 'rdata':
            out[name] = bytes(rng.randrange(256) for _ in range(P.get('L', 4)))
        elif name == 'modulus' and 'MODLEN' in P:
            out[name] = rng.randrange(2 ** (8 * P['MODLEN'] - 1), 2 ** (8 * P['MODLEN']))
        elif name == 'exponent':
            out[name] = rng.choice([3, 17, 255]) if P['EXPLEN'] == 1 else rng.randrange(2 ** (8 * P['EXPLEN'] - 8), 2 ** (8 * P['EXPLEN']))
        elif name == 'flags_index':
            out[name] = 1
        elif name in ('first', 'second') and kwargs[name].__class__ is bytes:
            out[name] = bytes(rng.choice(b'ab1') for _ in range(rng.randrange(0, 3)))
        elif name in ('alg_index', 'digest_index'):
            out[name] = {'alg_index': 3, 'digest_index': 1}[name]
        elif name in ('tag', 'priority'):
            out[name] = 7 if P.get('DIM') in ('alg', 'digest_type') else rng.randrange(65536)
        elif name == 'digest':
            out[name] = b''
        elif name == 'data':
            out[name] = b'' if P.get('KIND') == 'ecdsa' else bytes(rng.randrange(256) for _ in range(rng.randrange(0, 3)))
        elif name in ('first', 'second'):
            out[name] = rng.randrange(0, 2 ** 16) if P.get('KIND') == 'ecdsa' else 0
    if 'when' in kwargs:
        out.update(type_covered=1, labels=2, ttl=3600, tag=4660, when=1500000000)
        if P.get('DIM') == 'when':
            out['when'] = rng.randrange(0, 2 ** 32 - 1)
        elif P.get('DIM') == 'type_covered':
            out['type_covered'] = rng.choice(P['TYPES'] + [0xff00, 0xfffe])
        elif P.get('DIM') == 'numbers':
            out.update(labels=rng.randrange(256), ttl=rng.randrange(2 ** 32), tag=rng.randrange(65536))
    return out


def shards(tier, seed):  # pylint: disable=unused-argument
    from cryptodatahub.dnsrec.algorithm import DnsRrType  # pylint: disable=import-outside-toplevel
    thorough = tier == 'thorough'
    out = []
    for length in range(4, 17 if thorough else 13):
        out.append(Shard(MOD, 'key_tag', 'key_tag/L%d' % length, {'L': length}, 200,
                         bounds='every RDATA of %d bytes: key_tag == RFC 4034 Appendix B' % length))
    out.append(Shard(MOD, 'key_tag_rsamd5', 'key_tag/rsamd5', {}, 120, bounds='algorithm 1: every modulus < 2^40'))
    for alg in (5, 8):
        for explen, modlen in ((1, 4), (3, 4)) + (((3, 5), (2, 6)) if thorough else ()):
            for dim in ('key', 'flags'):
                if dim == 'flags' and (alg != 8 or explen != 3):
                    continue
                out.append(Shard(MOD, 'dnskey_rsa', 'dnskey/rsa-alg%d-e%d-n%d-%s' % (alg, explen, modlen, dim),
                                 {'ALG': alg, 'EXPLEN': explen, 'MODLEN': modlen, 'DIM': dim}, 600,
                                 bounds='DNSKEY algorithm %d: %d-byte exponent, %d-byte modulus (%s symbolic), RFC 3110 '
                                        'one-octet length form' % (alg, explen, modlen, dim)))
    # (P-384 goes through the same code as P-256 with longer coordinates: ~6 min per shard, thorough tier only)
    for alg, size, high in ((13, 32, False),) + (((14, 48, False), (13, 32, True)) if thorough else ()):
        out.append(Shard(MOD, 'dnskey_curve', 'dnskey/ecdsa-alg%d%s' % (alg, '-high' if high else ''),
                         {'KIND': 'ecdsa', 'ALG': alg, 'SIZE': size, 'HIGH': high,
                          'BITS': 40 if thorough else 16},
                         1800 if thorough else 600,
                         bounds='DNSKEY algorithm %d: coordinates with %d symbolic bits (%s end), leading zeros kept' % (
                             alg, 40 if thorough else 16, 'high' if high else 'low')))
    out.append(Shard(MOD, 'dnskey_curve', 'dnskey/ed25519', {'KIND': 'eddsa', 'ALG': 15, 'SIZE': 32}, 300,
                     bounds='DNSKEY algorithm 15: 32-byte key, first two bytes symbolic'))
    for dim in ('alg', 'tag', 'digest_type'):
        out.append(Shard(MOD, 'ds_record', 'ds/' + dim, {'DIM': dim}, 400,
                         bounds='DS: %s over its whole domain (digest <= 3 symbolic bytes with tag)' % dim))
    types = sorted(item.value.code for item in DnsRrType)
    for dim in ('type_covered', 'numbers', 'when'):
        out.append(Shard(MOD, 'rrsig_record', 'rrsig/' + dim, {'DIM': dim, 'TYPES': types}, 600,
                         bounds='RRSIG: %s symbolic (type covered: every defined and private type; labels/TTL/key tag '
                                'full width; timestamps 0..2^32-2 through S-dt)' % dim))
    for kind in ('mx', 'name', 'txt'):
        out.append(Shard(MOD, 'mx_txt_name', 'rdata/' + kind, {'KIND': kind, 'B': 2 if (thorough or kind == 'txt') else 1,
                                                             'ONE': not thorough}, 1800 if thorough else 600,
                         bounds='%s: labels / strings of symbolic [a-z0-9] characters (quick: one label of <= 1 '
                                'character next to a fixed one; thorough: two of <= 2), priority 16 bit' % kind))
    out.append(Shard(MOD, 'txt_lengths', 'txt_lengths', {}, kind='concrete',
                     bounds='TXT values of 0, 1, 254..256, 509..511, 765, 1020 octets against RFC 1035 chunking (natively)'))
    out.append(Shard(MOD, 'key_sizes', 'key_sizes', {}, kind='concrete',
                     bounds='RFC 6605 / RFC 8080 key sizes with the real PublicKey (natively)'))
    return out
