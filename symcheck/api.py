# -*- coding: utf-8 -*-
"""Vocabulary shared by all harness modules.

A harness is a plain, type-annotated function `h(args...) -> bool` with the docstring contract
``post: _``.  It returns True on every path on which the property holds (or is not applicable:
guards are written `if not cond: return True`), returns False when the property is violated and
lets an exception escape when the property forbids that exception.  `reach()` marks the point at
which the property was really asserted; the vacuity twin turns it into a failure.
"""
import os
import sys
import traceback

REPO = os.environ.get('SYMCHECK_REPO', '/repo')

# set by the runner ---------------------------------------------------------------------------
TWIN = False          # vacuity-twin mode: reach() raises
ALLOW_SITES = set()   # {(exception type name, innermost /repo function qualname)} tolerated (known findings)
REACHED = 0           # native counter of reach() calls
NOTES = []            # free-form details recorded by harnesses on native replay


class Reached(Exception):
    """raised by reach() in twin mode"""


def reach():
    global REACHED  # pylint: disable=global-statement
    REACHED += 1
    if TWIN:
        raise Reached()
    return True


def note(*items):
    if os.environ.get('SYMCHECK_DEBUG'):
        sys.stderr.write('NOTE ' + ' '.join(repr(item)[:300] for item in items) + '\n')
    if len(NOTES) < 50:
        NOTES.append(' '.join(str(item) for item in items))


def parse_errors():
    from cryptodatahub.common.exception import InvalidValue  # pylint: disable=import-outside-toplevel
    from cryptoparser.common.exception import (  # pylint: disable=import-outside-toplevel
        InvalidType, NotEnoughData, TooMuchData
    )
    return (InvalidValue, InvalidType, NotEnoughData, TooMuchData)


def raise_site(exc):
    """(type name, qualified name of the innermost function of /repo on the traceback)"""
    site = None
    trace = exc.__traceback__
    prefix = os.path.join(REPO, 'cryptoparser') + os.sep
    while trace is not None:
        code = trace.tb_frame.f_code
        if code.co_filename.startswith(prefix):
            site = getattr(code, 'co_qualname', code.co_name)
        trace = trace.tb_next
    return (type(exc).__name__, site)


class Escaped(Exception):
    """an exception that escaped from /repo, re-raised with concrete contents only (CrossHair cannot render an
    exception whose arguments hold symbolic values)"""

    def __init__(self, etype, site, text):
        Exception.__init__(self, '%s escaped from %s: %s' % (etype, site, text))
        self.etype, self.site_fn, self.text = etype, site, text


def escaped(exc):
    """call in an `except Exception as exc` block of a harness: returns normally when the raise site is a tolerated
    known finding, otherwise raises Escaped"""
    if tolerated(exc):
        return True
    etype, site = raise_site(exc)
    try:
        from crosshair.tracers import NoTracing  # pylint: disable=import-outside-toplevel
        with NoTracing():
            text = traceback.format_tb(exc.__traceback__)[-1].strip().splitlines()[0][:200]
    except Exception:  # pylint: disable=broad-except
        text = ''
    raise Escaped(etype, site, text) from None


def tolerated(exc):
    """True when the escaping exception is at a raise site listed as a known finding (rerun mode)"""
    if not ALLOW_SITES:
        return False
    return raise_site(exc) in ALLOW_SITES


def format_exc(exc):
    return ''.join(traceback.format_exception(type(exc), exc, exc.__traceback__))[-1500:]


def deep_eq(left, right, depth=0):  # pylint: disable=too-many-return-statements,too-many-branches
    """field-by-field structural equality (several library classes define no __eq__)"""
    import enum  # pylint: disable=import-outside-toplevel
    import attr  # pylint: disable=import-outside-toplevel

    if depth > 40:
        return False
    if left is right:
        return True
    if isinstance(left, enum.Enum) or isinstance(right, enum.Enum):
        return left is right or (type(left) is type(right) and left.name == right.name)
    if isinstance(left, (bytes, bytearray)) and isinstance(right, (bytes, bytearray)):
        return bytes(left) == bytes(right)
    if isinstance(left, bool) or isinstance(right, bool):
        # 0 == False and 1 == True: equal as Python values, which is what "equal field by field" can demand
        return isinstance(left, (bool, int)) and isinstance(right, (bool, int)) and left == right
    if isinstance(left, (int, float, str)) and isinstance(right, (int, float, str)):
        return left == right
    import datetime  # pylint: disable=import-outside-toplevel
    if isinstance(left, (datetime.date, datetime.timedelta, datetime.time)):
        return type(left) is type(right) and left == right   # (CrossHair's pure-Python datetime caches attributes)
    if left is None or right is None:
        return False
    if type(left) is not type(right):  # pylint: disable=unidiomatic-typecheck
        return False
    module = getattr(type(left), '__module__', '') or ''
    if not module.startswith(('cryptoparser.', 'symcheck.', 'builtins', 'collections')) and not isinstance(
            left, (list, tuple, set, frozenset, dict)):
        # third-party value (cryptodatahub key objects, asn1crypto, ipaddress, urllib3, ...): its own equality
        if hasattr(left, 'dump') and hasattr(right, 'dump') and module.startswith('asn1crypto'):
            return left.dump() == right.dump()
        return left == right
    if hasattr(left, '_items') and hasattr(left, 'get_param'):
        return deep_eq(list(left._items), list(right._items), depth + 1)  # pylint: disable=protected-access
    if attr.has(type(left)):
        for field in attr.fields(type(left)):
            if not deep_eq(getattr(left, field.name), getattr(right, field.name), depth + 1):
                return False
        return True
    if isinstance(left, (list, tuple)):
        if len(left) != len(right):
            return False
        for item_l, item_r in zip(left, right):
            if not deep_eq(item_l, item_r, depth + 1):
                return False
        return True
    if isinstance(left, (set, frozenset)):
        if len(left) != len(right):
            return False
        return all(any(deep_eq(a, b, depth + 1) for b in right) for a in left)
    if isinstance(left, dict):
        if len(left) != len(right):
            return False
        for (key_l, val_l), (key_r, val_r) in zip(left.items(), right.items()):
            if not deep_eq(key_l, key_r, depth + 1) or not deep_eq(val_l, val_r, depth + 1):
                return False
        return True
    if hasattr(left, '__dict__') and not callable(left):
        ldict, rdict = vars(left), vars(right)
        if set(ldict) != set(rdict):
            return False
        return all(deep_eq(ldict[key], rdict[key], depth + 1) for key in ldict)
    return left == right


def encode_args(args):
    def enc(val):
        if isinstance(val, (bytes, bytearray)):
            return {'__bytes__': bytes(val).hex()}
        if isinstance(val, (list, tuple)):
            return [enc(item) for item in val]
        if isinstance(val, dict):
            return {'__dict__': [[enc(k), enc(v)] for k, v in val.items()]}
        return val
    return {key: enc(val) for key, val in args.items()}


def decode_args(args):
    def dec(val):
        if isinstance(val, dict) and '__bytes__' in val:
            return bytes.fromhex(val['__bytes__'])
        if isinstance(val, dict) and '__dict__' in val:
            return {dec(k): dec(v) for k, v in val['__dict__']}
        if isinstance(val, list):
            return [dec(item) for item in val]
        return val
    return {key: dec(val) for key, val in args.items()}


def module_available(name):
    return name in sys.modules
