# -*- coding: utf-8 -*-
"""Reference encoders for SSL 2.0/3.0 and TLS structures, written from the RFC text (RFC 5246 4.3/6.2/7.x,
RFC 8446 4.x, RFC 6066, RFC 7301, RFC 7627, RFC 7685, RFC 8449, RFC 5077, RFC 5746, RFC 8422, the SSL 2.0 draft).
Shares no code with /repo: own integer packing, own table of vector floors and ceilings.  Executed symbolically as
part of postconditions, therefore plain arithmetic on ints and bytes only."""


def u8(value):
    return bytes([value])


def u16(value):
    return bytes([value // 256, value % 256])


def u24(value):
    return bytes([value // 65536, (value // 256) % 256, value % 256])


def u32(value):
    return bytes([value // 16777216, (value // 65536) % 256, (value // 256) % 256, value % 256])


def vec(body, ceiling):
    """opaque/struct vector <floor..ceiling>: the length prefix is as wide as the ceiling needs (RFC 5246 4.3)"""
    if ceiling < 2 ** 8:
        return u8(len(body)) + body
    if ceiling < 2 ** 16:
        return u16(len(body)) + body
    if ceiling < 2 ** 24:
        return u24(len(body)) + body
    return u32(len(body)) + body


# (floor, ceiling) of every TLS vector, from the RFC presentation-language definitions
VECTOR_BOUNDS = {
    'TlsSessionIdVector': (0, 32),                          # opaque SessionID<0..32>
    'TlsCipherSuiteVector': (2, 2 ** 16 - 2),               # CipherSuite cipher_suites<2..2^16-2>
    'TlsCompressionMethodVector': (1, 2 ** 8 - 1),          # CompressionMethod compression_methods<1..2^8-1>
    'TlsExtensionsClient': (0, 2 ** 16 - 1),                # Extension extensions<0..2^16-1>
    'TlsExtensionsServer': (0, 2 ** 16 - 1),
    'TlsEllipticCurveVector': (1, 2 ** 16 - 1),             # NamedCurve named_curve_list<1..2^16-1> (RFC 4492: 1; 8422: 2)
    'TlsECPointFormatVector': (1, 2 ** 8 - 1),              # ECPointFormat ec_point_format_list<1..2^8-1>
    'TlsSignatureAndHashAlgorithmVector': (2, 2 ** 16 - 2),  # supported_signature_algorithms<2..2^16-2>
    'TlsProtocolNameList': (2, 2 ** 16 - 1),                # ProtocolName protocol_name_list<2..2^16-1>
    'TlsCertificates': (0, 2 ** 24 - 1),                    # ASN.1Cert certificate_list<0..2^24-1>
    'TlsDistinguishedNameVector': (0, 2 ** 16 - 1),         # DistinguishedName certificate_authorities<0..2^16-1>
    'TlsClientCertificateTypeVector': (1, 2 ** 8 - 1),      # ClientCertificateType certificate_types<1..2^8-1>
    'TlsSupportedVersionVector': (2, 254),                  # ProtocolVersion versions<2..254>
    'TlsKeyShareEntryVector': (0, 2 ** 16 - 1),             # KeyShareEntry client_shares<0..2^16-1>
    'TlsPskKeyExchangeModeVector': (1, 255),                # PskKeyExchangeMode ke_modes<1..255>
    'TlsRenegotiatedConnection': (0, 255),                  # opaque renegotiated_connection<0..255>
    'TlsServerName': (1, 2 ** 16 - 1),                      # opaque HostName<1..2^16-1>
    'TlsCertificateCompressionAlgorithmVector': (2, 2 ** 8 - 2),   # algorithms<2..2^8-2> (RFC 8879)
    'TlsTokenBindingParamaterVector': (1, 2 ** 8 - 1),      # key_parameters_list<1..2^8-1> (RFC 8472)
    'TlsDistinguishedName': (1, 2 ** 16 - 1),               # opaque DistinguishedName<1..2^16-1>
    'TlsCertificateStatusRequestResponderId': (1, 2 ** 16 - 1),
    'TlsCertificateStatusRequestResponderIdList': (0, 2 ** 16 - 1),
    'TlsCertificateStatusRequestExtensions': (0, 2 ** 16 - 1),
    'TlsKeyExchangeVector': (1, 2 ** 16 - 1),               # opaque key_exchange<1..2^16-1>
    'TlsNextProtocolNameList': (None, None),                # NPN draft: no enclosing vector floor given
}


def record(content_type, version, fragment):
    # struct { ContentType type; ProtocolVersion version; uint16 length; opaque fragment[length]; }
    return u8(content_type) + u16(version) + u16(len(fragment)) + fragment


def alert(level, description):
    return u8(level) + u8(description)


def handshake(msg_type, body):
    # struct { HandshakeType msg_type; uint24 length; body }
    return u8(msg_type) + u24(len(body)) + body


def extension(ext_type, data):
    # struct { ExtensionType extension_type; opaque extension_data<0..2^16-1>; }
    return u16(ext_type) + u16(len(data)) + data


def extensions_block(extensions):
    body = b''
    for ext_type, data in extensions:
        body += extension(ext_type, data)
    return u16(len(body)) + body


def client_hello(version, random, session_id, suites, compressions, extensions):  # pylint: disable=too-many-arguments
    body = u16(version) + random + vec(session_id, 32)
    suites_body = b''
    for code in suites:
        suites_body += u16(code)
    body += vec(suites_body, 2 ** 16 - 2)
    body += vec(bytes(compressions), 2 ** 8 - 1)
    if extensions is not None:
        body += extensions_block(extensions)
    return handshake(1, body)


def server_hello(version, random, session_id, suite, compression, extensions):  # pylint: disable=too-many-arguments
    body = u16(version) + random + vec(session_id, 32) + u16(suite) + u8(compression)
    if extensions is not None:
        body += extensions_block(extensions)
    return handshake(2, body)


def certificate(chain):
    body = b''
    for cert in chain:
        body += vec(cert, 2 ** 24 - 1)
    return handshake(11, vec(body, 2 ** 24 - 1))


def server_key_exchange(params):
    return handshake(12, params)


def server_hello_done():
    return handshake(14, b'')


def certificate_request(cert_types, sig_algs, authorities):
    body = vec(bytes(cert_types), 255)
    if sig_algs is not None:
        algs = b''
        for code in sig_algs:
            algs += u16(code)
        body += vec(algs, 2 ** 16 - 2)
    names = b''
    for name in authorities:
        names += vec(name, 2 ** 16 - 1)
    body += vec(names, 2 ** 16 - 1)
    return handshake(13, body)


def certificate_status(status_type, response):
    return handshake(22, u8(status_type) + vec(response, 2 ** 24 - 1))


# --- extension bodies -------------------------------------------------------------------------------------------------

def ext_server_name(host):
    # ServerNameList: server_name_list<1..2^16-1> of { NameType name_type(0); opaque HostName<1..2^16-1> }
    entry = u8(0) + vec(host, 2 ** 16 - 1)
    return extension(0, vec(entry, 2 ** 16 - 1))


def ext_u16_list(ext_type, codes, ceiling=2 ** 16 - 1):
    body = b''
    for code in codes:
        body += u16(code)
    return extension(ext_type, vec(body, ceiling))


def ext_u8_list(ext_type, codes):
    return extension(ext_type, vec(bytes(codes), 255))


def ext_supported_groups(codes):
    return ext_u16_list(10, codes)


def ext_ec_point_formats(codes):
    return ext_u8_list(11, codes)


def ext_signature_algorithms(codes):
    return ext_u16_list(13, codes, 2 ** 16 - 2)


def ext_alpn(names):
    body = b''
    for name in names:
        body += vec(name, 255)
    return extension(16, vec(body, 2 ** 16 - 1))


def ext_supported_versions_client(codes):
    body = b''
    for code in codes:
        body += u16(code)
    return extension(43, vec(body, 254))


def ext_supported_versions_server(code):
    return extension(43, u16(code))


def ext_psk_modes(codes):
    return ext_u8_list(45, codes)


def ext_key_share_client(entries):
    body = b''
    for group, key in entries:
        body += u16(group) + vec(key, 2 ** 16 - 1)
    return extension(51, vec(body, 2 ** 16 - 1))


def ext_record_size_limit(limit):
    return extension(28, u16(limit))


def ext_padding(length):
    return extension(21, bytes(length))


def ext_session_ticket(ticket):
    return extension(35, ticket)


def ext_renegotiation_info(data):
    return extension(0xff01, vec(data, 255))


def ext_empty(ext_type):
    return extension(ext_type, b'')


# --- SSL 2.0 ------------------------------------------------------------------------------------------------------------

def ssl2_record(message_type, body):
    # two-byte header, most significant bit set, 15-bit length of what follows
    data = u8(message_type) + body
    return u16(0x8000 + len(data)) + data


def ssl2_error(code):
    return ssl2_record(0, u16(code))


def ssl2_client_hello(version, cipher_kinds, session_id, challenge):
    # char MSG-CLIENT-HELLO; char CLIENT-VERSION-MSB/LSB; CIPHER-SPECS-LENGTH(2) SESSION-ID-LENGTH(2) CHALLENGE-LENGTH(2)
    specs = b''
    for kind in cipher_kinds:
        specs += u24(kind)
    return ssl2_record(1, u16(version) + u16(len(specs)) + u16(len(session_id)) + u16(len(challenge)) + specs +
                       session_id + challenge)


# --- decoders used for the P-direction ------------------------------------------------------------------------------------

def prefix_width(ceiling):
    if ceiling < 2 ** 8:
        return 1
    if ceiling < 2 ** 16:
        return 2
    if ceiling < 2 ** 24:
        return 3
    return 4
