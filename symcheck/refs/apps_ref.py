# -*- coding: utf-8 -*-
"""Reference encoders for the opportunistic-TLS application messages, written from the protocol documents
(MySQL client/server protocol: Protocol::HandshakeV10, Protocol::SSLRequest, packet header; RFC 1006 TPKT; ITU-T X.224
CR/CC TPDU; MS-RDPBCGR 2.2.1.1.1 / 2.2.1.2.1 RDP_NEG_REQ / RDP_NEG_RSP; OpenVPN control channel packet format;
PostgreSQL SSLRequest; RFC 4511 / 4513 StartTLS).  No code of /repo is used."""


def u8(value):
    return bytes([value])


def be(value, size):
    return bytes([(value >> (8 * (size - 1 - idx))) % 256 for idx in range(size)])


def le(value, size):
    return bytes([(value >> (8 * idx)) % 256 for idx in range(size)])


# --- MySQL ----------------------------------------------------------------------------------------------------------

def mysql_packet(sequence, payload):
    # int<3> payload_length, int<1> sequence_id, payload
    return le(len(payload), 3) + u8(sequence) + payload


def mysql_handshake_v10(version, server_version, connection_id, auth_data_1, capabilities, charset, status,
                        auth_data_2, plugin_name):  # pylint: disable=too-many-arguments
    # int<1> protocol version; string<NUL> server version; int<4> thread id; string[8] auth-plugin-data-part-1;
    # int<1> filler; int<2> capability_flags_1 (lower 16 bits); int<1> character_set; int<2> status_flags;
    # int<2> capability_flags_2 (upper 16 bits); int<1> auth_plugin_data_len (if CLIENT_PLUGIN_AUTH) else 00;
    # string[10] reserved; auth-plugin-data-part-2; string<NUL> auth_plugin_name (if CLIENT_PLUGIN_AUTH)
    plugin_auth = (capabilities >> 19) % 2 == 1
    out = u8(version) + server_version + b'\x00' + le(connection_id, 4) + auth_data_1 + b'\x00'
    out += le(capabilities % 65536, 2) + u8(charset) + le(status, 2) + le(capabilities >> 16, 2)
    out += u8(8 + len(auth_data_2)) if plugin_auth else u8(0)
    out += bytes(10)
    if plugin_auth:
        out += auth_data_2 + plugin_name + b'\x00'
    return out


def mysql_ssl_request_41(capabilities, max_packet_size, charset):
    # int<4> client_flag; int<4> max_packet_size; int<1> character_set; filler[23]
    return le(capabilities, 4) + le(max_packet_size, 4) + u8(charset) + bytes(23)


def mysql_ssl_request_320(capabilities, max_packet_size):
    # int<2> client_flag; int<3> max_packet_size
    return le(capabilities, 2) + le(max_packet_size, 3)


# --- RDP ------------------------------------------------------------------------------------------------------------

def tpkt(payload):
    return u8(3) + u8(0) + be(len(payload) + 4, 2) + payload


def cotp_connection(code, dst_ref, src_ref, class_option, user_data):
    # X.224: LI, CR(1110 xxxx)/CC(1101 xxxx), DST-REF(2), SRC-REF(2), CLASS OPTION(1), variable part / user data
    body = u8(code) + be(dst_ref, 2) + be(src_ref, 2) + u8(class_option) + user_data
    return u8(len(body)) + body


def rdp_negotiation(packet_type, flags, protocols):
    # type(1) flags(1) length(2, little endian, always 8) requestedProtocols / selectedProtocol (4, little endian)
    return u8(packet_type) + u8(flags) + le(8, 2) + le(protocols, 4)


# --- OpenVPN ----------------------------------------------------------------------------------------------------------

def openvpn_header(opcode, key_id, session_id, packet_ids, remote_session_id):
    # opcode(5 bits) | key_id(3 bits); session id (8); ack array length (1); ack packet ids (4 each);
    # remote session id (8, only when the ack array is not empty)
    out = u8(opcode * 8 + key_id) + be(session_id, 8) + u8(len(packet_ids))
    for packet_id in packet_ids:
        out += be(packet_id, 4)
    if packet_ids:
        out += be(remote_session_id, 8)
    return out


def openvpn_control(opcode, key_id, session_id, packet_ids, remote_session_id, packet_id, payload):  # pylint: disable=too-many-arguments
    return openvpn_header(opcode, key_id, session_id, packet_ids, remote_session_id) + be(packet_id, 4) + payload


def openvpn_tcp(packet):
    return be(len(packet), 2) + packet


# --- PostgreSQL / LDAP ---------------------------------------------------------------------------------------------------

def pg_ssl_request():
    return be(8, 4) + be(80877103, 4)


def ldap_start_tls_response(message_id, result_code):
    # LDAPMessage ::= SEQUENCE { messageID INTEGER, protocolOp extendedResp [APPLICATION 24] SEQUENCE {
    #   resultCode ENUMERATED, matchedDN OCTET STRING, diagnosticMessage OCTET STRING } }
    operation = bytes([0x0a, 0x01, result_code, 0x04, 0x00, 0x04, 0x00])
    body = bytes([0x02, 0x01, message_id, 0x78, len(operation)]) + operation
    return bytes([0x30, len(body)]) + body


def ldap_start_tls_request(message_id):
    oid = b'1.3.6.1.4.1.1466.20037'
    operation = bytes([0x80, len(oid)]) + oid
    body = bytes([0x02, 0x01, message_id, 0x77, len(operation)]) + operation
    return bytes([0x30, len(body)]) + body
