# -*- coding: utf-8 -*-
"""Reference encoders for DNS RDATA, written from RFC 1035 (names, MX, TXT), RFC 4034 (DNSKEY, DS, RRSIG, key tag
Appendix B), RFC 3110 (RSA keys), RFC 6605 (ECDSA), RFC 8080 (EdDSA).  No code of /repo is used."""


def u8(value):
    return bytes([value])


def u16(value):
    return bytes([value // 256, value % 256])


def u32(value):
    return bytes([(value >> 24) % 256, (value >> 16) % 256, (value >> 8) % 256, value % 256])


def fixed(value, length):
    return bytes([(value >> (8 * (length - 1 - idx))) % 256 for idx in range(length)])


def name(labels):
    out = b''
    for label in labels:
        out += u8(len(label)) + label
    return out + b'\x00'


def key_tag(rdata):
    """RFC 4034 Appendix B (all algorithms except 1)"""
    total = 0
    for index, byte in enumerate(rdata):
        total += byte if index % 2 else byte * 256
    total += (total // 65536) % 65536
    return total % 65536


def key_tag_rsamd5(modulus):
    """RFC 4034 Appendix B.1: the most significant 16 of the least significant 24 bits of the modulus"""
    return (modulus // 256) % 65536


def dnskey(flags, protocol, algorithm, key):
    return u16(flags) + u8(protocol) + u8(algorithm) + key


def rsa_key(exponent, exponent_length, modulus, modulus_length):
    """RFC 3110: exponent length as one octet, or zero followed by two octets when it exceeds 255"""
    if exponent_length <= 255:
        head = u8(exponent_length)
    else:
        head = u8(0) + u16(exponent_length)
    return head + fixed(exponent, exponent_length) + fixed(modulus, modulus_length)


def ecdsa_key(point_x, point_y, size):
    return fixed(point_x, size) + fixed(point_y, size)


def ds(tag, algorithm, digest_type, digest):
    return u16(tag) + u8(algorithm) + u8(digest_type) + digest


def rrsig(type_covered, algorithm, labels, ttl, expiration, inception, tag, signer, signature):  # pylint: disable=too-many-arguments
    return (u16(type_covered) + u8(algorithm) + u8(labels) + u32(ttl) + u32(expiration) + u32(inception) + u16(tag) +
            name(signer) + signature)


def mx(priority, exchange):
    return u16(priority) + name(exchange)


def txt(strings):
    out = b''
    for item in strings:
        out += u8(len(item)) + item
    return out
