# -*- coding: utf-8 -*-
"""Reference encoders for SSH structures, written from RFC 4251 (data types), RFC 4253 (packets, KEXINIT, KEXDH,
DISCONNECT, public key blobs), RFC 4419 (group exchange), RFC 5656 (ECDSA), RFC 8709 (Ed25519) and OpenSSH
PROTOCOL.certkeys.  No code of /repo is used; plain arithmetic on ints and bytes."""


def u8(value):
    return bytes([value])


def u32(value):
    return bytes([(value >> 24) % 256, (value >> 16) % 256, (value >> 8) % 256, value % 256])


def u64(value):
    return u32(value >> 32) + u32(value % (2 ** 32))


def string(data):
    return u32(len(data)) + data


def name_list(names):
    return string(b','.join(names))


def mpint(value):
    """RFC 4251 5: two's complement, big endian, minimal length, zero is the empty string"""
    if value == 0:
        return u32(0)
    length = 1
    while not -(2 ** (8 * length - 1)) <= value < 2 ** (8 * length - 1):
        length += 1
    body = bytes([((value % (2 ** (8 * length))) >> (8 * (length - 1 - idx))) % 256 for idx in range(length)])
    return string(body)


def packet(payload):
    """RFC 4253 6: uint32 packet_length, byte padding_length, payload, random padding; total multiple of 8 (no
    cipher), at least 4 bytes of padding"""
    padding = 8 - (len(payload) + 5) % 8
    if padding < 4:
        padding += 8
    return u32(1 + len(payload) + padding) + u8(padding) + payload + bytes(padding)


def kexinit(cookie, lists, first_kex_packet_follows, reserved):
    out = u8(20) + cookie
    for names in lists:         # 10 name-lists in the order of RFC 4253 7.1
        out += name_list(names)
    return out + u8(1 if first_kex_packet_follows else 0) + u32(reserved)


def disconnect(reason, description, language):
    return u8(1) + u32(reason) + string(description) + string(language)


def unimplemented(sequence):
    return u8(3) + u32(sequence)


def kexdh_init(public):
    return u8(30) + string(public)        # (mpint e; carried as an opaque string by the library)


def kexdh_reply(host_key, public, signature):
    return u8(31) + string(host_key) + string(public) + string(signature)


def gex_request(minimum, preferred, maximum):
    return u8(34) + u32(minimum) + u32(preferred) + u32(maximum)


def gex_group(prime, generator):
    return u8(31) + string(prime) + string(generator)


def gex_init(public):
    return u8(32) + string(public)


def key_rsa(exponent, modulus):
    return string(b'ssh-rsa') + mpint(exponent) + mpint(modulus)


def key_dss(prime, order, generator, public):
    return string(b'ssh-dss') + mpint(prime) + mpint(order) + mpint(generator) + mpint(public)


def key_ed25519(key):
    return string(b'ssh-ed25519') + string(key)


def key_ecdsa(curve, point):
    return string(b'ecdsa-sha2-' + curve) + string(curve) + string(point)


def signature(algorithm, blob):
    return string(algorithm) + string(blob)


def options(items):
    """critical options / extensions: string-wrapped sequence of (string name, string data)"""
    body = b''
    for name, data in items:
        body += string(name) + string(data)
    return string(body)


def cert_v01_ed25519(nonce, key, serial, cert_type, key_id, principals, valid_after, valid_before, critical, extensions,
                     reserved, signature_key, sig):  # pylint: disable=too-many-arguments
    # PROTOCOL.certkeys: string "ssh-ed25519-cert-v01@openssh.com", string nonce, string pk, uint64 serial, uint32 type,
    # string key id, string valid principals, uint64 valid after, uint64 valid before, string critical options,
    # string extensions, string reserved, string signature key, string signature
    names = b''
    for principal in principals:
        names += string(principal)
    return (string(b'ssh-ed25519-cert-v01@openssh.com') + string(nonce) + string(key) + u64(serial) + u32(cert_type) +
            string(key_id) + string(names) + u64(valid_after) + u64(valid_before) + options(critical) +
            options(extensions) + string(reserved) + string(signature_key) + string(sig))


def banner(proto, software, comment):
    out = b'SSH-' + proto + b'-' + software
    if comment is not None:
        out += b' ' + comment
    return out + b'\r\n'


def hassh_text(kex, encryption, mac, compression):
    return b';'.join([b','.join(kex), b','.join(encryption), b','.join(mac), b','.join(compression)])
