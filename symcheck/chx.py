# -*- coding: utf-8 -*-
"""CrossHair extension layer (DESIGN.md 2.2): X1 bitwise ops by a constant, X2 int(a / const),
X3 InvalidValue formatting stub.  Every replacement is exact for all Python ints; the lemmas that
justify X1/X2 are discharged by z3 in `lemmas()` and reported in evidence.

Import order matters: crosshair.core_and_libs must be imported first (registers the patches).
"""
import time

import z3
import crosshair.core_and_libs  # noqa: F401  pylint: disable=unused-import
from crosshair import core as _core
from crosshair.libimpl.builtinslib import SymbolicInt
from crosshair.statespace import context_statespace
from crosshair.tracers import NoTracing

# divisors for which lemma L2 was discharged in this process (filled by enable_truediv)
LEMMA_OK_DIVISORS = set()
MASKS_SEEN = set()

_installed = False


def _runs(mask):
    """maximal runs of set bits of mask >= 0 as (lo, hi) half-open bit positions"""
    runs, i = [], 0
    while mask >> i:
        if (mask >> i) & 1:
            low = i
            while (mask >> i) & 1:
                i += 1
            runs.append((low, i))
        else:
            i += 1
    return runs


def _and_expr(avar, mask):
    # z3 Int `/` and `%` by positive constants floor like Python's // and %
    terms = [((avar / (2 ** lo)) % (2 ** (hi - lo))) * (2 ** lo) for lo, hi in _runs(mask)]
    if not terms:
        return z3.IntVal(0)
    return z3.Sum(terms) if len(terms) > 1 else terms[0]


def _is_concrete_int(val):
    return isinstance(val, int) and not isinstance(val, SymbolicInt)


def _sym_and(lhs, rhs):
    """lhs & rhs for SymbolicInt lhs and concrete int rhs; None = fall back to stock"""
    with NoTracing():
        if isinstance(rhs, SymbolicInt) and not isinstance(lhs, SymbolicInt):
            lhs, rhs = rhs, lhs
        if isinstance(lhs, SymbolicInt) and isinstance(rhs, int) and not isinstance(rhs, SymbolicInt):
            mask = int.__index__(rhs)   # plain ints, bools and IntEnum/IntFlag members
            MASKS_SEEN.add(mask)
            if mask >= 0:
                return SymbolicInt(_and_expr(lhs.var, mask))
            return SymbolicInt(lhs.var - _and_expr(lhs.var, ~mask))
    return None


def preinstall_codecs():
    """X6b: pure-Python codecs (idna) build their result in a bytearray; under the tracer every bytearray is
    symbolic and the codec machinery rejects the SymbolicBytes result with TypeError even for concrete input.
    The codec entry points are wrapped before the first codec lookup (the registry caches bound methods): untraced
    execution on realised input while tracing, the stock function otherwise."""
    import encodings.idna as idna  # pylint: disable=import-outside-toplevel
    from crosshair.tracers import is_tracing  # pylint: disable=import-outside-toplevel
    if getattr(idna.Codec, '_chx_wrapped', False):
        return

    def wrap(stock):
        def method(self, data, errors='strict'):
            if is_tracing():
                from crosshair.core import deep_realize  # pylint: disable=import-outside-toplevel
                data, errors = deep_realize(data), deep_realize(errors)
                with NoTracing():
                    return stock(self, data, errors)
            return stock(self, data, errors)
        return method

    idna.Codec.encode = wrap(idna.Codec.encode)
    idna.Codec.decode = wrap(idna.Codec.decode)
    idna.Codec._chx_wrapped = True  # pylint: disable=protected-access


def install(invalid_value_stub=True):
    """idempotently install X1..X3"""
    global _installed  # pylint: disable=global-statement
    if _installed:
        return
    _installed = True

    stock_and = SymbolicInt.__and__
    stock_or = SymbolicInt.__or__
    stock_xor = SymbolicInt.__xor__

    def __and__(self, other):
        res = _sym_and(self, other)
        return res if res is not None else stock_and(self, other)

    def __or__(self, other):
        res = _sym_and(self, other)
        return stock_or(self, other) if res is None else self + other - res

    def __xor__(self, other):
        res = _sym_and(self, other)
        return stock_xor(self, other) if res is None else self + other - 2 * res

    SymbolicInt.__and__ = __and__
    SymbolicInt.__rand__ = lambda s, o: __and__(s, o)
    SymbolicInt.__or__ = __or__
    SymbolicInt.__ror__ = lambda s, o: __or__(s, o)
    SymbolicInt.__xor__ = __xor__
    SymbolicInt.__rxor__ = lambda s, o: __xor__(s, o)

    # X2: int(a / b) for a concrete divisor b whose lemma L2 holds, 0 <= a < 2**32
    class IntRatio(float):
        def __new__(cls, num, den):
            obj = float.__new__(cls, 0.0)
            obj.num, obj.den = num, den
            return obj

    stock_truediv = SymbolicInt.__truediv__

    def __truediv__(self, other):
        with NoTracing():
            if type(other) is int and other in LEMMA_OK_DIVISORS:
                space = context_statespace()
                if space.smt_fork(z3.And(self.var >= 0, self.var < 2 ** 32), probability_true=0.99):
                    return IntRatio(self, other)
        return stock_truediv(self, other)

    SymbolicInt.__truediv__ = __truediv__
    stock_int = _core._PATCH_REGISTRATIONS[int]  # pylint: disable=protected-access

    def _int(val=0, *args):
        if type(val) is IntRatio:
            return val.num // val.den
        with NoTracing():  # required: the stock patch's trailing int(val) would re-enter this patch
            return stock_int(val, *args)

    _core._PATCH_REGISTRATIONS[int] = _int  # pylint: disable=protected-access

    # X5: CrossHair's struct model treats '=' and '@' as big endian; they are the host order
    import sys as _sys  # pylint: disable=import-outside-toplevel
    from crosshair.libimpl import structlib  # pylint: disable=import-outside-toplevel

    def _byteorder_for_int(prefix):
        if prefix == '<' or (prefix in ('=', '@') and _sys.byteorder == 'little'):
            return 'little'
        return 'big'

    structlib._byteorder_for_int = _byteorder_for_int  # pylint: disable=protected-access

    # X6: the pure-Python punycode codec, run under the tracer, hands a SymbolicBytes to the codec machinery, which
    # rejects it with TypeError even for concrete input.  Run it untraced on realised input (a realisation is a
    # fork on concrete values and keeps the search exhaustive).
    import encodings.punycode as _punycode  # pylint: disable=import-outside-toplevel
    from crosshair.core import deep_realize  # pylint: disable=import-outside-toplevel

    stock_encode, stock_decode = _punycode.punycode_encode, _punycode.punycode_decode

    def punycode_encode(text):
        text = deep_realize(text)
        with NoTracing():
            return stock_encode(text)

    def punycode_decode(text, errors):
        text, errors = deep_realize(text), deep_realize(errors)
        with NoTracing():
            return stock_decode(text, errors)

    _punycode.punycode_encode = punycode_encode
    _punycode.punycode_decode = punycode_decode

    if invalid_value_stub:
        install_invalid_value_stub()
    install_scalar_dict_guard()

    # X8: no short-circuiting: a called function that carries a contract is always executed, never replaced by "some
    # value satisfying its postcondition" (harness functions carry `post: _`; see also runner._excluding_wrapper).
    _core.ShortCircuitingContext.make_interceptor = lambda self, original: original


def has_instance_dict(obj):
    """hasattr(obj, '__dict__') as the native value answers it: a CrossHair proxy (symbolic scalar, ShellMutableSet,
    the pure-Python datetime classes, ...) is a Python object with an instance __dict__, the value it stands for
    (int, str, bytes, set, datetime.datetime, ...) has none."""
    with NoTracing():
        if hasattr(type(obj), '__ch_pytype__'):
            native = _core.python_type(obj)
            return getattr(native, '__dictoffset__', 0) != 0
        return hasattr(obj, '__dict__')


X7_FUNCTIONS = ('_json_traverse', '_markdown_result', '_get_ordered_dict')


def install_scalar_dict_guard():
    """X7: Serializable._json_traverse, ._markdown_result and ._get_ordered_dict probe hasattr(obj, '__dict__').
    The three functions are recompiled from /repo's current source with exactly that call replaced by
    has_instance_dict(obj); nothing else of them changes, so a change to the real functions is analysed as it is."""
    import ast  # pylint: disable=import-outside-toplevel
    import inspect  # pylint: disable=import-outside-toplevel
    import textwrap  # pylint: disable=import-outside-toplevel
    from cryptoparser.common import base  # pylint: disable=import-outside-toplevel

    class Rewrite(ast.NodeTransformer):
        count = 0

        def visit_Call(self, node):  # pylint: disable=invalid-name
            self.generic_visit(node)
            if (isinstance(node.func, ast.Name) and node.func.id == 'hasattr' and len(node.args) == 2 and
                    isinstance(node.args[1], ast.Constant) and node.args[1].value == '__dict__'):
                Rewrite.count += 1
                return ast.copy_location(ast.Call(func=ast.Name(id='__chx_has_instance_dict', ctx=ast.Load()),
                                                  args=[node.args[0]], keywords=[]), node)
            return node

    base.__dict__['__chx_has_instance_dict'] = has_instance_dict
    for name in X7_FUNCTIONS:
        raw = inspect.getattr_static(base.Serializable, name, None)
        if raw is None:
            continue
        func = raw.__func__ if isinstance(raw, (staticmethod, classmethod)) else raw
        try:
            source = textwrap.dedent(inspect.getsource(func))
        except (OSError, TypeError):
            continue
        tree = ast.parse(source)
        before = Rewrite.count
        tree = ast.fix_missing_locations(Rewrite().visit(tree))
        ast.increment_lineno(tree, func.__code__.co_firstlineno - 1)
        if Rewrite.count == before:
            continue
        tree.body[0].decorator_list = []
        namespace = {}
        exec(compile(tree, inspect.getsourcefile(func), 'exec'), func.__globals__, namespace)  # pylint: disable=exec-used
        fresh = namespace[func.__name__]
        fresh.__qualname__ = func.__qualname__
        setattr(base.Serializable, name, type(raw)(fresh) if isinstance(raw, (staticmethod, classmethod)) else fresh)


def install_invalid_value_stub():
    """X3: cryptodatahub InvalidValue.__init__ formats its (symbolic) value; keep fields, drop formatting"""
    from cryptodatahub.common.exception import InvalidValue  # pylint: disable=import-outside-toplevel

    def _init(self, value, type_class=None, class_member=None):
        Exception.__init__(self, 'invalid value')
        self.value = value
        self.type_class = type_class
        self.class_member = class_member

    InvalidValue.__init__ = _init


# ---------------------------------------------------------------------------------------------
# lemmas

def _l1_step(args):
    """step lemma: (a div 2^lo) mod 2^(k+1) == (a div 2^lo) mod 2^k + ((a div 2^(lo+k)) mod 2) * 2^k, all ints a"""
    low, k = args
    solver = z3.Solver()
    solver.set('timeout', 30000)
    aval = z3.Int('a')
    lhs = (aval / (2 ** low)) % (2 ** (k + 1))
    rhs = (aval / (2 ** low)) % (2 ** k) + ((aval / (2 ** (low + k))) % 2) * (2 ** k)
    solver.add(lhs != rhs)
    return (low, k, str(solver.check()))


def l1_obligations(masks):
    """bit i of a Python int a is (a div 2^i) mod 2 (two's complement, definition).  For a run [lo, hi) of
    mask bits, sum_{i in run} bit_i 2^i == ((a div 2^lo) mod 2^(hi-lo)) 2^lo follows by induction on the run
    length from the step lemma; the obligations are the steps (lo, k), 1 <= k < hi - lo."""
    steps = set()
    for mask in masks:
        for low, high in _runs(mask if mask >= 0 else ~mask):
            for k in range(1, high - low):
                steps.add((low, k))
    return sorted(steps)


def lemma_identities(timeout_ms=60000):
    """64-bit bit-vector identities behind the or/xor/negative-mask rewrites, both operands symbolic"""
    solver = z3.Solver()
    solver.set('timeout', timeout_ms)
    aval, mval = z3.BitVecs('a m', 64)
    solver.add(z3.Or(
        (aval | mval) != aval + mval - (aval & mval),
        (aval ^ mval) != aval + mval - 2 * (aval & mval),
        (aval & mval) != aval - (aval & ~mval),
    ))
    return str(solver.check())


def concrete_and_check(samples=1500, seed=0):
    """evaluate the z3 rewrite on random concrete operands against Python's own operators"""
    import random  # pylint: disable=import-outside-toplevel
    rng = random.Random(seed)
    aval = z3.Int('a')
    bad = 0
    for _ in range(samples):
        bits = rng.choice([8, 16, 24, 32, 64, 80])
        value = rng.randrange(-2 ** bits, 2 ** bits)
        mask = rng.choice([0xff, 0x7f, 0x80, 0x3fff, 0x8000, 0xffffffff, 0x0f0f, rng.randrange(0, 2 ** 32),
                           -rng.randrange(1, 2 ** 16), 0, 1])
        if mask >= 0:
            expr = _and_expr(aval, mask)
        else:
            expr = aval - _and_expr(aval, ~mask)
        got = z3.simplify(z3.substitute(expr, (aval, z3.IntVal(value))))
        if got.as_long() != value & mask:
            bad += 1
    return bad


def lemma_l2(divisor, timeout_ms=60000):
    """fpToSBV_RTZ(fp64(a) /_RNE fp64(b)) == a udiv b for all 0 <= a < 2**32, concrete b"""
    solver = z3.Solver()
    solver.set('timeout', timeout_ms)
    aval = z3.BitVec('a', 34)
    solver.add(z3.ULT(aval, z3.BitVecVal(2 ** 32, 34)))
    fa = z3.fpSignedToFP(z3.RNE(), aval, z3.Float64())
    fb = z3.FPVal(float(divisor), z3.Float64())
    quot = z3.fpDiv(z3.RNE(), fa, fb)
    as_int = z3.fpToSBV(z3.RTZ(), quot, z3.BitVecSort(34))
    solver.add(as_int != z3.UDiv(aval, z3.BitVecVal(divisor, 34)))
    return str(solver.check())


def enable_truediv(divisors):
    """discharge L2 per divisor; only proven divisors are enabled.  returns report rows"""
    rows = []
    for div in sorted(set(divisors)):
        start = time.time()
        res = lemma_l2(div)
        if res == 'unsat':
            LEMMA_OK_DIVISORS.add(div)
        rows.append({'lemma': 'L2', 'divisor': div, 'result': res, 'seconds': round(time.time() - start, 2)})
    return rows


def check_masks(masks, pool_size=16):
    """discharge the L1 step obligations for every mask constant met during the run"""
    import multiprocessing  # pylint: disable=import-outside-toplevel
    start = time.time()
    steps = l1_obligations(masks)
    rows = []
    if steps:
        with multiprocessing.get_context('fork').Pool(min(pool_size, len(steps))) as pool:
            results = pool.map(_l1_step, steps)
    else:
        results = []
    failed = [res for res in results if res[2] != 'unsat']
    rows.append({'lemma': 'L1', 'masks': sorted(masks), 'step_obligations': len(steps),
                 'result': 'unsat' if not failed else 'failed: %r' % failed[:5],
                 'seconds': round(time.time() - start, 2)})
    start = time.time()
    rows.append({'lemma': 'L1-identities (or/xor/negative mask, 64-bit BV)', 'result': lemma_identities(),
                 'seconds': round(time.time() - start, 2)})
    start = time.time()
    bad = concrete_and_check()
    rows.append({'lemma': 'L1-concrete (1500 random operands vs Python &)', 'result': 'unsat' if not bad else
                 '%d mismatches' % bad, 'seconds': round(time.time() - start, 2)})
    return rows
