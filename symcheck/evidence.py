# -*- coding: utf-8 -*-
"""evidence/<id>.json writer (schema: /root/.vp/EVIDENCE.schema.json, level model_checking)"""
import json
import os

VERIF = os.path.dirname(os.path.dirname(os.path.abspath(__file__)))

COMMON_ASSUMPTIONS = [
    'engine: CrossHair 0.0.110 symbolic execution of the real /repo code on z3; CONFIRMED = every path inside the '
    'stated bound exhausted and satisfying the postcondition; nothing is claimed outside the bound',
    'chx layer: X1 bitwise ops by constants as div/mod (lemma L1 per mask), X2 int(a/const) as floor division '
    '(lemma L2 per divisor, 0<=a<2^32), X3 cryptodatahub InvalidValue message formatting stubbed',
    'CPython 3.12, CrossHair models of bytes/struct/int/codecs, z3 5.1 are trusted',
    'every counterexample is replayed natively (no CrossHair, no stubs) before it is reported',
    'every CONFIRMED shard is cross-checked by 20 native runs of the same harness on concrete arguments drawn with '
    'VERIF_SEED; a failing native run is a harness error (exit 3), never a violation',
]


def write(prop, tier, seed, rows, concrete_rows, lemma_rows, violations, known_hits, harness_errors, wall,
          partial=False, extra_assumptions=()):
    decided = [r for r in rows if r['verdict'] in ('CONFIRMED', 'REFUTED', 'REFUTED-KNOWN')]
    inconclusive = [r for r in rows if r['verdict'] in ('INCONCLUSIVE', 'VACUOUS', 'NOT-REPRODUCED', 'ERROR',
                                                        'DIFFERENTIAL-MISMATCH')]
    paths = sum(r.get('paths') or 0 for r in rows)
    queries = sum(r.get('solver_queries') or 0 for r in rows)
    replays = sum(1 for r in rows if 'replay' in r)
    diff_runs = sum(r.get('differential_runs') or 0 for r in rows)
    diff_nontrivial = sum(r.get('differential_nontrivial') or 0 for r in rows)
    samples = []
    for row in rows:
        if row['verdict'] in ('CONFIRMED', 'REFUTED-KNOWN') and len(samples) < 6:
            sample = {k: row[k] for k in ('shard', 'harness', 'bounds', 'verdict', 'paths', 'solver_queries')
                      if k in row}
            if 'counterexample' in row:
                sample['counterexample'] = row['counterexample']
            samples.append(sample)
    if not samples:
        samples = [{k: r.get(k) for k in ('shard', 'verdict', 'bounds')} for r in rows[:3]] or [{'note': 'no shard'}]
    doc = {
        'property_id': prop,
        'tier': tier,
        'seed': seed,
        'level': 'model_checking',
        'coverage': {
            'states': max(paths, 1),
            'transitions': max(queries, 1),
            'traces_validated_against_impl': replays + diff_runs + sum(
                (r.get('native_sweep') or {}).get('values_run', 0) for r in rows),
            'native_replays_of_counterexamples': replays,
            'differential_native_runs': diff_runs,
            'differential_native_runs_reaching_the_assertion': diff_nontrivial,
            'samples': samples,
            'explanation': 'bounded symbolic execution: states = execution paths explored by CrossHair over all '
                           'shards, transitions = z3 check() calls; each shard decides its postcondition for every '
                           'value inside its stated bound',
            'shards_total': len(rows),
            'shards_decided': len(decided),
            'shards_inconclusive': len(inconclusive),
            'inconclusive': [{'shard': r['shard'], 'verdict': r['verdict'], 'paths': r.get('paths'),
                              'native_sweep': r.get('native_sweep')} for r in inconclusive][:200],
            'native_sweeps_of_undecided_single_byte_shards': {
                'shards': sum(1 for r in rows if r.get('native_sweep')),
                'native_runs': sum((r.get('native_sweep') or {}).get('values_run', 0) for r in rows),
                'note': 'enumeration of all values of the byte, natively; not a solver result, the shard stays undecided'},
            'solver_seconds': round(sum(r.get('solver_seconds') or 0 for r in rows), 2),
            'functions_encoded': sorted({r['harness'] for r in rows}),
            'shards': rows,
            'side_conditions_concrete': concrete_rows,
            'lemmas': lemma_rows,
            'known_findings_hit': known_hits,
            'harness_errors': [{'shard': label, 'message': message[:500]} for label, message in harness_errors],
            'partial_run': partial,
            'exhaustive': False,
        },
        'assumptions': COMMON_ASSUMPTIONS + list(extra_assumptions),
        'wall_s': round(wall, 2),
        'violations': len(violations),
    }
    directory = os.path.join(VERIF, 'evidence')
    if os.environ.get('SYMCHECK_TAG'):
        directory = os.path.join(VERIF, 'build', os.environ['SYMCHECK_TAG'], 'evidence')
    os.makedirs(directory, exist_ok=True)
    with open(os.path.join(directory, '%s.json' % prop), 'w') as handle:
        json.dump(doc, handle, indent=1, default=repr)
