# -*- coding: utf-8 -*-
"""known_findings.json: committed, read-only at run time (DESIGN.md section 4)"""
import copy
import fnmatch
import json
import os
import re

VERIF = os.path.dirname(os.path.dirname(os.path.abspath(__file__)))
PATH = os.path.join(VERIF, 'known_findings.json')


def load(prop):
    if not os.path.exists(PATH):
        return []
    with open(PATH) as handle:
        data = json.load(handle)
    return [entry for entry in data.get('findings', []) if entry['property'] == prop]


def _harness_matches(entry, shard):
    pattern = entry.get('harness', '*')
    return fnmatch.fnmatch(shard.harness, pattern) or fnmatch.fnmatch(shard.label, pattern)


def match(known, shard, args, replay):
    """the entry that covers this replayed counterexample, or None"""
    for entry in known:
        if not _harness_matches(entry, shard):
            continue
        if 'site' in entry:
            if replay.get('outcome') == 'exception' and list(replay.get('site') or []) == list(entry['site']):
                return entry
            continue
        if 'case' in entry:
            if re.search(entry['case'], str(args.get('case', ''))):
                return entry
            continue
        if 'region' in entry:
            env = {'P': shard.params}
            env.update(args)
            try:
                if eval(entry['region'], {}, env):  # pylint: disable=eval-used
                    return entry
            except Exception:  # pylint: disable=broad-except
                continue
    return None


def excluding(shard, known):
    """copy of the shard with every known region of its harness excluded / known raise sites tolerated"""
    rerun = copy.deepcopy(shard)
    rerun.label = shard.label + '#excl'
    for entry in known:
        if not _harness_matches(entry, shard):
            continue
        if 'site' in entry:
            rerun.allow_sites.append(list(entry['site']))
        elif 'region' in entry:
            rerun.extra_pre.append('not (%s)' % entry['region'])
    return rerun
