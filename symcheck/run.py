# -*- coding: utf-8 -*-
"""python -m symcheck.run <PROP> [--tier quick|thorough] [--only substr] | --replay <file>"""
import argparse
import hashlib
import importlib
import json
import os
import subprocess
import sys
import time

from symcheck import api, findings
from symcheck.api import decode_args, encode_args
from symcheck.runner import Shard, run_shards

VERIF = os.path.dirname(os.path.dirname(os.path.abspath(__file__)))

HARNESS_MODULES = {
    'C01': ['c01_roundtrip'],
    'C02': ['c02_errors'],
    'C03': ['framing:shards_c03'],
    'C04': ['framing:shards_c04'],
    'C05': ['c05_canonical'],
    'C06': ['c06_tls_layout'],
    'C07': ['c07_ssh:shards_c07'],
    'C08': ['c08_dns'],
    'C09': ['c09_apps'],
    'C10': ['c10_codes'],
    'C11': ['c11_prims'],
    'C12': ['c12_vectors'],
    'C13': ['c13_purity'],
    'C14': ['c14_serial'],
    'C18': ['c18_spelling'],
    'C15': ['c15_ja3'],
    'C16': ['c07_ssh:shards_c16'],
    'C17': ['c17_version'],
}

EXIT_OK, EXIT_VIOLATION, EXIT_HARNESS = 0, 1, 3


def _log(*items):
    print(*items, file=sys.stderr, flush=True)


def load_shards(prop, tier, seed, only=None):
    shards = []
    for name in HARNESS_MODULES[prop]:
        name, _, func = name.partition(':')
        module = importlib.import_module('symcheck.harness.' + name)
        shards.extend(getattr(module, func or 'shards')(tier, seed))
    if only:
        shards = [s for s in shards if any(o in s.label for o in only)]
    labels = [s.label for s in shards]
    assert len(labels) == len(set(labels)), 'duplicate shard labels'
    return shards


def native_replay(shard, args, timeout=120):
    """re-execute the harness on concrete args in a clean interpreter (no CrossHair, no stubs)"""
    payload = json.dumps({'shard': shard.as_dict(), 'args': encode_args(args)})
    proc = subprocess.run(
        [sys.executable, '-m', 'symcheck.replay', '--stdin'], input=payload, capture_output=True, text=True,
        timeout=timeout, cwd=VERIF, check=False,
    )
    try:
        return json.loads(proc.stdout.strip().splitlines()[-1])
    except (IndexError, ValueError):
        return {'outcome': 'error', 'detail': (proc.stdout + proc.stderr)[-1000:]}


def _single_byte_harness(shard):
    import inspect  # pylint: disable=import-outside-toplevel
    if shard.kind != 'symbolic':
        return False
    try:
        fn = getattr(importlib.import_module(shard.module), shard.fn)
        return list(inspect.signature(fn).parameters) == ['val']
    except Exception:  # pylint: disable=broad-except
        return False


def native_sweep(shards, timeout=1800):
    payload = json.dumps({'shards': [shard.as_dict() for shard in shards]})
    proc = subprocess.run(
        [sys.executable, '-m', 'symcheck.replay', '--sweep'], input=payload, capture_output=True, text=True,
        timeout=timeout, cwd=VERIF, check=False,
    )
    try:
        return json.loads(proc.stdout.strip().splitlines()[-1])
    except (IndexError, ValueError):
        _log('native sweep failed: %s' % (proc.stdout + proc.stderr)[-600:])
        return [(shard.label, 0, []) for shard in shards]


def write_replay(prop, shard, args, replay):
    digest = hashlib.sha1(json.dumps([shard.label, encode_args(args)], sort_keys=True).encode()).hexdigest()[:10]
    directory = os.path.join(VERIF, 'replays', prop)
    if os.environ.get('SYMCHECK_TAG'):
        directory = os.path.join(VERIF, 'build', os.environ['SYMCHECK_TAG'], 'replays', prop)
    os.makedirs(directory, exist_ok=True)
    path = os.path.join(directory, '%s-%s.json' % (shard.label.replace('/', '_'), digest))
    with open(path, 'w') as handle:
        json.dump({'property': prop, 'shard': shard.as_dict(), 'args': encode_args(args), 'observed': replay},
                  handle, indent=1, default=repr)
    return path


def check_property(prop, tier, seed, only=None):  # pylint: disable=too-many-locals,too-many-branches,too-many-statements
    start = time.time()
    from symcheck import chx  # pylint: disable=import-outside-toplevel
    chx.preinstall_codecs()
    lemma_rows = chx.enable_truediv([1, 2, 4])
    from symcheck.harness import registry  # pylint: disable=import-outside-toplevel
    registry.import_all()   # before forking: importing under the CrossHair tracer is very slow
    known = findings.load(prop)
    shards = load_shards(prop, tier, seed, only)
    by_label = {s.label: s for s in shards}
    _log('[%s] %d shards, tier=%s' % (prop, len(shards), tier))

    def progress(shard, res):
        _log('  %-55s %-12s paths=%-5d q=%-6d %.1fs %s' % (
            shard.label, res['verdict'], res['paths'], res['queries'], res['wall'],
            (res.get('twin') or '') if res['verdict'] == 'CONFIRMED' else res['message'][:100].replace('\n', ' ')))

    symbolic = [s for s in shards if s.kind == 'symbolic']
    results = run_shards(symbolic, progress)

    violations, known_hits, harness_errors, rows = [], [], [], []
    unreproduced = []
    reruns = []
    masks = set()
    for label, res in results.items():
        shard = by_label[label]
        masks.update(res.get('masks') or [])
        row = {'shard': label, 'harness': shard.harness, 'bounds': shard.bounds, 'params': shard.params,
               'verdict': res['verdict'], 'paths': res['paths'], 'solver_queries': res['queries'],
               'solver_seconds': res['solver_s'], 'wall': res['wall'], 'twin': res.get('twin')}
        rows.append(row)
        row['differential_runs'] = res.get('diff_runs', 0)
        row['differential_nontrivial'] = res.get('diff_reached', 0)
        if res.get('diff_failures'):
            row['verdict'] = 'DIFFERENTIAL-MISMATCH'
            row['differential_failures'] = res['diff_failures']
            harness_errors.append((label, 'CONFIRMED symbolically but a native run on concrete arguments fails: %r' % (
                res['diff_failures'],)))
        elif res['verdict'] == 'ERROR':
            harness_errors.append((label, res['message']))
        elif (res['verdict'] == 'CONFIRMED' and shard.twin and res.get('twin') != 'reachable' and
              not (str(res.get('twin')).startswith('unknown') and res.get('diff_reached', 0) > 0)):
            # (a twin that cannot be rendered - e.g. a 5000-byte witness - is accepted when native runs of the same
            # harness demonstrably reach the assertion)
            if _single_byte_harness(shard):
                # no path of the engine reaches the assertion although the original byte is among the 256 values:
                # the engine cannot run this parser (dateutil on symbolic text raises on every path).  Undecided;
                # the native sweep below runs all 256 values.
                row['verdict'] = 'INCONCLUSIVE'
                row['note'] = 'vacuous under the engine (twin: %s)' % res.get('twin')
            else:
                row['verdict'] = 'VACUOUS'
                harness_errors.append((label, 'vacuity twin: %s' % res.get('twin')))
        elif res['verdict'] == 'REFUTED':
            outcome = triage(prop, shard, res, known, row)
            if outcome[0] == 'violation':
                violations.append(outcome[1])
            elif outcome[0] == 'known':
                known_hits.append(outcome[1])
                reruns.append(outcome[2])
            elif outcome[0] == 'unreproduced':
                unreproduced.append((label, outcome[1]))
            else:
                harness_errors.append((label, outcome[1]))

    # second pass: every shard that hit a known finding is re-run with all known regions of its
    # harness excluded; anything else it finds is a new violation
    if reruns:
        _log('[%s] re-running %d shards with known regions excluded' % (prop, len(reruns)))
        rr_by_label = {s.label: s for s in reruns}
        rr_results = run_shards(reruns, progress)
        for label, res in rr_results.items():
            shard = rr_by_label[label]
            masks.update(res.get('masks') or [])
            row = {'shard': label, 'harness': shard.harness, 'bounds': shard.bounds + ' minus known-finding regions',
                   'params': shard.params, 'verdict': res['verdict'], 'paths': res['paths'],
                   'solver_queries': res['queries'], 'solver_seconds': res['solver_s'], 'wall': res['wall'],
                   'twin': res.get('twin'), 'excluded': shard.extra_pre, 'allowed_sites': shard.allow_sites}
            rows.append(row)
            if res['verdict'] == 'ERROR':
                harness_errors.append((label, res['message']))
            elif res['verdict'] == 'REFUTED':
                outcome = triage(prop, shard, res, [], row)
                if outcome[0] == 'violation':
                    violations.append(outcome[1])
                elif outcome[0] == 'unreproduced':
                    unreproduced.append((label, outcome[1]))
                else:
                    harness_errors.append((label, outcome[1]))

    # fallback for single-byte shards the engine left undecided (budget, or a counterexample that is an artefact of
    # its library models): the byte has 256 values, so the same harness is run natively on all of them.  This is
    # enumeration, not a solver result - it is reported separately and never turns the shard into CONFIRMED - but a
    # defect must not hide behind a modelling gap of the engine.
    undecided = [row for row in rows if row['verdict'] in ('INCONCLUSIVE', 'NOT-REPRODUCED')]
    sweepable = []
    for row in undecided:
        shard = by_label.get(row['shard']) or next((s for s in reruns if s.label == row['shard']), None)
        if shard is not None and _single_byte_harness(shard):
            sweepable.append((row, shard))
    if sweepable:
        _log('[%s] native sweep of %d undecided single-byte shards' % (prop, len(sweepable)))
        for (row, shard), (_, ran, failing) in zip(sweepable, native_sweep([shard for _, shard in sweepable])):
            row['native_sweep'] = {'values_run': ran, 'failing': [item[0] for item in failing]}
            for val, replay in failing[:1]:
                if replay.get('outcome') == 'exception' and not (replay.get('site') or [None, None])[1]:
                    harness_errors.append((shard.label, 'native sweep: exception raised by the harness, not by /repo: %s'
                                           % replay.get('trace', '')[-600:]))
                    continue
                match = findings.match(known, shard, {'val': val}, replay)
                if match is not None:
                    row['known_finding'] = match['id']
                    known_hits.append({'what': match['what'], 'id': match['id'], 'args': {'val': val}})
                    continue
                path = write_replay(prop, shard, {'val': val}, replay)
                violations.append({'replay': path, 'shard': shard.label, 'summary': '%s (native sweep) args=%r -> %s' % (
                    shard.label, {'val': val}, json.dumps(replay)[:600])})

    # a counterexample that the real code does not reproduce is a gap of the engine's library models (never a
    # violation): the shard is inconclusive.  More than a handful means the harness or the layer is wrong.
    for label, message in unreproduced:
        _log('NOT-REPRODUCED %s: %s' % (label, message[:400]))
    if len(unreproduced) > max(5, len(rows) // 25):
        harness_errors.append(('replay', '%d counterexamples did not reproduce natively' % len(unreproduced)))
    lemma_rows.extend(chx.check_masks(masks))
    for lrow in lemma_rows:
        if lrow['result'] not in ('unsat', 'skipped'):
            harness_errors.append(('lemma', json.dumps(lrow)))

    concrete_rows = []
    for shard in shards:
        if shard.kind == 'concrete':
            concrete_rows.append(run_concrete(prop, shard, known, violations, known_hits, harness_errors))

    printed = set()
    for hit in known_hits:
        line = 'KNOWN-FINDING: property=%s %s' % (prop, hit['what'])
        if line not in printed:
            printed.add(line)
            print(line)
    for vio in violations:
        print('VIOLATION property=%s replay=%s' % (prop, vio['replay']))
        _log('   ', vio['summary'])
    for label, message in harness_errors:
        _log('HARNESS-ERROR %s: %s' % (label, message[:2000]))

    from symcheck import evidence  # pylint: disable=import-outside-toplevel
    evidence.write(prop, tier, seed, rows, concrete_rows, lemma_rows, violations, known_hits, harness_errors,
                   time.time() - start, partial=bool(only))
    sys.stdout.flush()
    if violations:
        return EXIT_VIOLATION
    if harness_errors:
        return EXIT_HARNESS
    return EXIT_OK


def triage(prop, shard, res, known, row):
    """REFUTED shard: replay natively, then classify"""
    args = res.get('args')
    if args is None:
        return ('error', 'could not recover counterexample arguments from: %s' % res['message'][:500])
    args = decode_args(args)
    replay = native_replay(shard, args)
    row['counterexample'] = encode_args(args)
    row['replay'] = replay
    if replay.get('outcome') not in ('false', 'exception'):
        row['verdict'] = 'NOT-REPRODUCED'
        row['symbolic_message'] = res['message'][:400]
        return ('unreproduced', 'counterexample %r does not reproduce natively: %r (symbolic message: %s)' % (
            args, replay, res['message'][:300]))
    if replay.get('outcome') == 'exception' and not (replay.get('site') or [None, None])[1]:
        # no frame of the repository on the traceback: the harness itself failed
        row['verdict'] = 'ERROR'
        return ('error', 'exception raised by the harness, not by /repo: %s' % replay.get('trace', '')[-600:])
    match = findings.match(known, shard, args, replay)
    if match is not None:
        row['verdict'] = 'REFUTED-KNOWN'
        row['known_finding'] = match['id']
        rerun = findings.excluding(shard, known)
        return ('known', {'what': match['what'], 'id': match['id'], 'args': encode_args(args)}, rerun)
    path = write_replay(prop, shard, args, replay)
    summary = '%s args=%r -> %s' % (shard.label, args, json.dumps(replay)[:600])
    return ('violation', {'replay': path, 'summary': summary, 'shard': shard.label})


def run_concrete(prop, shard, known, violations, known_hits, harness_errors):
    """side conditions evaluated natively (finite tables); reported separately, never counted as solver results"""
    module = importlib.import_module(shard.module)
    module.P = dict(shard.params)
    start = time.time()
    row = {'shard': shard.label, 'harness': shard.harness, 'bounds': shard.bounds, 'kind': 'concrete'}
    try:
        problems = getattr(module, shard.fn)()
    except Exception as exc:  # pylint: disable=broad-except
        harness_errors.append((shard.label, api.format_exc(exc)))
        row['verdict'] = 'ERROR'
        return row
    row['verdict'] = 'HOLDS' if not problems else 'FAILS'
    row['wall'] = round(time.time() - start, 2)
    row['problems'] = problems[:20]
    for problem in problems:
        args = {'case': problem}
        match = findings.match(known, shard, args, {'outcome': 'false', 'detail': problem})
        if match is not None:
            known_hits.append({'what': match['what'], 'id': match['id'], 'args': args})
        else:
            path = write_replay(prop, shard, args, {'outcome': 'false', 'detail': problem})
            violations.append({'replay': path, 'summary': '%s: %s' % (shard.label, problem), 'shard': shard.label})
    return row


def main(argv=None):
    import warnings  # pylint: disable=import-outside-toplevel
    warnings.filterwarnings('ignore')
    os.environ.setdefault('PYTHONWARNINGS', 'ignore')
    parser = argparse.ArgumentParser()
    parser.add_argument('prop', nargs='?')
    parser.add_argument('--tier', default=os.environ.get('VERIF_TIER', 'quick'), choices=['quick', 'thorough'])
    parser.add_argument('--only', action='append')
    parser.add_argument('--replay')
    opts = parser.parse_args(argv)
    seed = int(os.environ.get('VERIF_SEED', '0') or 0)
    if opts.replay:
        from symcheck import replay  # pylint: disable=import-outside-toplevel
        return replay.replay_file(opts.replay)
    if opts.prop not in HARNESS_MODULES:
        _log('unknown property', opts.prop)
        return 2
    return check_property(opts.prop, opts.tier, seed, opts.only)


if __name__ == '__main__':
    try:
        CODE = main()
    except SystemExit:
        raise
    except BaseException:  # pylint: disable=broad-except
        import traceback
        traceback.print_exc()
        CODE = EXIT_HARNESS     # a crash of the machinery is never reported as a violation
    sys.exit(CODE)
