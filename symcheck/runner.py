# -*- coding: utf-8 -*-
"""Shard scheduler: one forked process per shard, 16 at a time; CrossHair API; solver statistics."""
import collections
import importlib
import inspect
import json
import multiprocessing
import os
import random
import re
import sys
import time
import traceback

import attr

from symcheck import api

NPROC = int(os.environ.get('SYMCHECK_NPROC', '16'))


@attr.s
class Shard(object):  # pylint: disable=too-few-public-methods,too-many-instance-attributes
    module = attr.ib()            # 'symcheck.harness.c11_prims'
    fn = attr.ib()                # harness function name
    label = attr.ib()             # unique within the property
    params = attr.ib(factory=dict)   # becomes module.P
    timeout = attr.ib(default=30.0)  # CrossHair per_condition_timeout
    path_timeout = attr.ib(default=None)
    bounds = attr.ib(default='')     # human readable statement of the bound
    twin = attr.ib(default=True)
    samples = attr.ib(default=None)  # optional name of `def <samples>(rng, P) -> list of arg dicts`
    kind = attr.ib(default='symbolic')  # 'symbolic' | 'concrete' (side-condition evaluated natively)
    extra_pre = attr.ib(factory=list)   # additional `pre:` expressions (known-finding exclusions)
    allow_sites = attr.ib(factory=list)
    group = attr.ib(default=None)       # evidence aggregation key for very large shard families

    @property
    def harness(self):
        return self.module.rsplit('.', 1)[-1] + ':' + self.fn

    def as_dict(self):
        return attr.asdict(self)


_CALL_RE = re.compile(r'when calling (\w+)\((.*)\)\s*$', re.S)


def _split_returns(text):
    idx = text.rfind(' (which returns')
    if idx >= 0:
        text = text[:idx]
    # a witness that also fixes the results of nondeterministic functions (random, time): the arguments are replayed
    # natively without that patch; if the failure needs the patched result it does not reproduce (-> inconclusive)
    idx = text.find(' with crosshair.patch_to_return(')
    if idx >= 0:
        text = text[:idx]
    return text


def parse_counterexample(message, fn):
    """CrossHair renders the failing call as text; recover the argument dict"""
    match = _CALL_RE.search(_split_returns(message.strip()))
    if not match:
        return None
    argtext = match.group(2)
    sig = inspect.signature(fn)

    def _cap(*args, **kwargs):
        bound = sig.bind(*args, **kwargs)
        bound.apply_defaults()
        return dict(bound.arguments)

    env = {'_cap': _cap, 'float': float, 'nan': float('nan'), 'inf': float('inf')}
    try:
        return eval('_cap(' + argtext + ')', env)  # pylint: disable=eval-used
    except Exception:  # pylint: disable=broad-except
        return None


def _instrument_solver():
    import z3  # pylint: disable=import-outside-toplevel
    stats = {'queries': 0, 'seconds': 0.0, 'unknown': 0}
    stock = z3.Solver.check

    def check(self, *assumptions):
        start = time.perf_counter()
        res = stock(self, *assumptions)
        stats['seconds'] += time.perf_counter() - start
        stats['queries'] += 1
        if str(res) == 'unknown':
            stats['unknown'] += 1
        return res

    z3.Solver.check = check
    return stats


def _analyze(fn, timeout, path_timeout):
    from crosshair.core_and_libs import analyze_function, run_checkables  # pylint: disable=import-outside-toplevel
    from crosshair.options import AnalysisOptionSet  # pylint: disable=import-outside-toplevel

    counter = collections.Counter()
    options = AnalysisOptionSet(
        per_condition_timeout=timeout,
        per_path_timeout=path_timeout if path_timeout else max(10.0, timeout / 2),
        report_all=True,
        max_uninteresting_iterations=0,
        stats=counter,
    )
    messages = list(run_checkables(analyze_function(fn, options)))
    return messages, counter


def _verdict(messages):
    if not messages:
        return 'INCONCLUSIVE', 'no message'
    states = [m.state.name for m in messages]
    for msg in messages:
        if msg.state.name in ('POST_FAIL', 'EXEC_ERR', 'POST_ERR', 'PRE_INVALID', 'SYNTAX_ERR', 'IMPORT_ERR'):
            return 'REFUTED' if msg.state.name in ('POST_FAIL', 'EXEC_ERR') else 'ERROR', msg.message
    if all(state == 'CONFIRMED' for state in states):
        return 'CONFIRMED', ''
    return 'INCONCLUSIVE', '; '.join('%s %s' % (m.state.name, m.message) for m in messages)[:300]


def _excluding_wrapper(module, fn, exclusions, label):
    """known-finding regions are excluded by a generated copy of the harness function (CrossHair reads contracts from
    source files, so a precondition cannot be injected at run time): the current source of the harness with
    `if <region>: return True` inserted as its first statement, compiled from a file under build/wrappers in a
    namespace that shares the harness module's globals.

    The copy does NOT call the original harness.  A first version did (`return _m.harness(args)`), and every such
    re-run came back CONFIRMED: the callee carries the contract `post: _`, CrossHair enforces the contracts of called
    functions and drops a path on which a *callee's* postcondition fails - the caller is not to blame - so exactly the
    violating paths vanished."""
    import ast  # pylint: disable=import-outside-toplevel
    import hashlib  # pylint: disable=import-outside-toplevel
    import importlib.util  # pylint: disable=import-outside-toplevel
    import textwrap  # pylint: disable=import-outside-toplevel
    verif = os.path.dirname(os.path.dirname(os.path.abspath(__file__)))
    directory = os.path.join(verif, 'build', 'wrappers')
    os.makedirs(directory, exist_ok=True)
    conditions = ' or '.join('(%s)' % expr[len('not ('):-1] if expr.startswith('not (') else '(not (%s))' % expr
                             for expr in exclusions)
    tree = ast.parse(textwrap.dedent(inspect.getsource(fn)))
    fdef = tree.body[0]
    fdef.decorator_list = []
    guard = ast.parse('if %s:\n    return True' % conditions).body[0]
    has_doc = (fdef.body and isinstance(fdef.body[0], ast.Expr) and isinstance(getattr(fdef.body[0], 'value', None),
                                                                               ast.Constant))
    fdef.body.insert(1 if has_doc else 0, guard)
    source = ast.unparse(ast.fix_missing_locations(tree)) + '\n'
    name = 'w_' + hashlib.sha1((module.__name__ + fn.__name__ + label + source).encode()).hexdigest()[:12]
    path = os.path.join(directory, name + '.py')
    with open(path, 'w') as handle:
        handle.write(source)
    spec = importlib.util.spec_from_file_location(name, path)
    wrapper_module = importlib.util.module_from_spec(spec)
    for key, value in vars(module).items():
        if not key.startswith('__'):
            wrapper_module.__dict__[key] = value
    sys.modules[name] = wrapper_module
    spec.loader.exec_module(wrapper_module)
    return getattr(wrapper_module, fn.__name__)


def _doc_with_pre(fn, extra_pre):
    lines = ['    pre: %s' % expr for expr in extra_pre]
    lines.append('    post: _')
    return '\n' + '\n'.join(lines) + '\n    '


_INT_POOL = [0, 1, 2, 3, 5, 7, 8, 15, 16, 31, 32, 63, 64, 127, 128, 129, 254, 255, 256, 257, 1000, 4095, 16383, 16384,
             32767, 32768, 65534, 65535, 65536, 2 ** 24 - 1, 2 ** 24, 2 ** 31, 2 ** 32 - 1, 2 ** 32, 2 ** 40, 2 ** 63,
             2 ** 64 - 1, -1, -2, -128, -129, -256, -65536, -2 ** 32]


def _sample_value(annotation, rng):
    import typing  # pylint: disable=import-outside-toplevel
    if annotation is bool:
        return rng.random() < 0.5
    if annotation is int:
        return rng.choice(_INT_POOL) if rng.random() < 0.7 else rng.randrange(-4, 300)
    if annotation is bytes:
        return bytes(rng.choice([0, 1, 10, 13, 32, 48, 65, 97, 127, 128, 255, rng.randrange(256)])
                     for _ in range(rng.choice([0, 1, 1, 2, 2, 3, 4])))
    if annotation is str:
        return ''.join(rng.choice('aZ09 ;=,-') for _ in range(rng.randrange(0, 4)))
    origin = typing.get_origin(annotation)
    if origin in (list, typing.List):
        (inner,) = typing.get_args(annotation) or (int,)
        return [_sample_value(inner, rng) if inner is not int else rng.randrange(0, 9)
                for _ in range(rng.randrange(0, 4))]
    raise TypeError('no sampler for %r' % (annotation,))


def differential(fn, seed_value, label, count=20):
    """Serval-style cross-check of a CONFIRMED verdict: the harness is executed natively (no tracer) on concrete
    arguments; every run has to return True.  returns (runs, runs that reached the assertion, failing args)"""
    import zlib  # pylint: disable=import-outside-toplevel
    rng = random.Random(seed_value * 1000003 + zlib.crc32(label.encode()))
    sig = inspect.signature(fn)
    runs = reached = 0
    failures = []
    module = sys.modules.get(fn.__module__)
    sampler = getattr(module, 'sample_' + fn.__name__, None) or getattr(module, 'sample_args', None)
    for _ in range(count):
        try:
            kwargs = {name: _sample_value(param.annotation, rng) for name, param in sig.parameters.items()}
            if sampler is not None:
                kwargs.update({key: val for key, val in (sampler(rng, kwargs) or {}).items() if key in kwargs})
        except TypeError:
            break
        before = api.REACHED
        try:
            outcome = bool(fn(**kwargs))
        except Exception as exc:  # pylint: disable=broad-except
            outcome = False
            kwargs = dict(kwargs, _exception='%s: %s' % (type(exc).__name__, str(exc)[:200]))
        runs += 1
        if api.REACHED > before:
            reached += 1
        if not outcome and len(failures) < 3:
            failures.append(api.encode_args(kwargs))
    return runs, reached, failures


def shard_worker(shard_d, conn):
    """runs in a forked child"""
    result = {'label': shard_d['label'], 'verdict': 'ERROR', 'message': '', 'args': None,
              'paths': 0, 'queries': 0, 'solver_s': 0.0, 'wall': 0.0, 'twin': None, 'masks': []}
    start = time.time()
    try:
        from symcheck import chx  # pylint: disable=import-outside-toplevel
        chx.install()
        stats = _instrument_solver()
        module = importlib.import_module(shard_d['module'])
        module.P = dict(shard_d['params'])
        api.TWIN = False
        api.ALLOW_SITES = set(tuple(site) for site in shard_d['allow_sites'])
        random.seed(int(os.environ.get('VERIF_SEED', '0')))
        fn = getattr(module, shard_d['fn'])
        if hasattr(module, 'setup'):
            module.setup(module.P)
        if shard_d['extra_pre']:
            fn = _excluding_wrapper(module, fn, shard_d['extra_pre'], shard_d['label'])
        messages, counter = _analyze(fn, shard_d['timeout'], shard_d['path_timeout'])
        verdict, message = _verdict(messages)
        result.update(verdict=verdict, message=message[:3000], paths=int(counter.get('num_paths', 0)))
        if verdict == 'REFUTED':
            cex = parse_counterexample(message, fn)
            result['args'] = api.encode_args(cex) if cex is not None else None
        if verdict == 'CONFIRMED' and shard_d['twin']:
            api.TWIN = True
            tmsgs, tcounter = _analyze(fn, min(shard_d['timeout'], 60.0), shard_d['path_timeout'])
            tverdict, tmsg = _verdict(tmsgs)
            if tverdict == 'REFUTED' and 'Reached' in tmsg:
                result['twin'] = 'reachable'
            elif tverdict == 'CONFIRMED':
                result['twin'] = 'unreachable'
            else:
                result['twin'] = 'unknown: ' + tmsg[:200]
            result['paths'] += int(tcounter.get('num_paths', 0))
            api.TWIN = False
        if result['verdict'] == 'CONFIRMED' and not shard_d['extra_pre'] and not shard_d['allow_sites']:
            api.TWIN = False
            runs, reached, failures = differential(fn, int(os.environ.get('VERIF_SEED', '0') or 0), shard_d['label'])
            result.update(diff_runs=runs, diff_reached=reached, diff_failures=failures)
        result.update(queries=stats['queries'], solver_s=round(stats['seconds'], 3),
                      solver_unknown=stats['unknown'], masks=sorted(chx.MASKS_SEEN))
    except BaseException as exc:  # pylint: disable=broad-except
        result['verdict'] = 'ERROR'
        result['message'] = ('%s: %s\n%s' % (type(exc).__name__, exc, traceback.format_exc()))[-3000:]
    result['wall'] = round(time.time() - start, 2)
    try:
        conn.send(json.dumps(result, default=repr))
    finally:
        conn.close()


def run_shards(shards, progress=None):
    """run all shards, at most NPROC at a time; returns {label: result}"""
    ctx = multiprocessing.get_context('fork')
    # longest budgets first: the tail of a run is then made of short shards
    pending = sorted(shards, key=lambda shard: -shard.timeout)
    running = {}
    results = {}
    while pending or running:
        while pending and len(running) < NPROC:
            shard = pending.pop(0)
            parent_conn, child_conn = ctx.Pipe(duplex=False)
            proc = ctx.Process(target=shard_worker, args=(shard.as_dict(), child_conn))
            proc.start()
            child_conn.close()
            hard = shard.timeout * 2.5 + 60
            running[shard.label] = (proc, parent_conn, time.time() + hard, shard)
        time.sleep(0.02)
        for label in list(running):
            proc, conn, deadline, shard = running[label]
            res = None
            if conn.poll():
                try:
                    res = json.loads(conn.recv())
                except (EOFError, OSError):
                    res = {'label': label, 'verdict': 'ERROR', 'message': 'worker died', 'args': None,
                           'paths': 0, 'queries': 0, 'solver_s': 0.0, 'wall': 0.0, 'twin': None, 'masks': []}
                proc.join(5)
            elif not proc.is_alive():
                proc.join()
                res = {'label': label, 'verdict': 'ERROR',
                       'message': 'worker exited with code %s' % proc.exitcode, 'args': None,
                       'paths': 0, 'queries': 0, 'solver_s': 0.0, 'wall': 0.0, 'twin': None, 'masks': []}
            elif time.time() > deadline:
                proc.kill()
                proc.join()
                res = {'label': label, 'verdict': 'INCONCLUSIVE', 'message': 'hard deadline', 'args': None,
                       'paths': 0, 'queries': 0, 'solver_s': 0.0, 'wall': round(shard.timeout * 2.5 + 60, 1),
                       'twin': None, 'masks': []}
            if res is not None:
                conn.close()
                del running[label]
                results[label] = res
                if progress:
                    progress(shard, res)
    return results


def trace_functions(fn, kwargs):
    """names of /repo functions entered by a native run (for evidence)"""
    prefix = os.path.join(api.REPO, 'cryptoparser') + os.sep
    seen = set()

    def prof(frame, event, _arg):
        if event == 'call':
            code = frame.f_code
            if code.co_filename.startswith(prefix):
                seen.add(getattr(code, 'co_qualname', code.co_name))

    sys.setprofile(prof)
    try:
        fn(**kwargs)
    except Exception:  # pylint: disable=broad-except
        pass
    finally:
        sys.setprofile(None)
    return sorted(seen)
