# -*- coding: utf-8 -*-
"""Shard scheduler: one forked process per shard, 16 at a time; CrossHair API; solver statistics."""
import collections
import importlib
import inspect
import json
import multiprocessing
import os
import random
import re
import sys
import time
import traceback

import attr

from symcheck import api

NPROC = int(os.environ.get('SYMCHECK_NPROC', '16'))


@attr.s
class Shard(object):  # pylint: disable=too-few-public-methods,too-many-instance-attributes
    module = attr.ib()            # 'symcheck.harness.c11_prims'
    fn = attr.ib()                # harness function name
    label = attr.ib()             # unique within the property
    params = attr.ib(factory=dict)   # becomes module.P
    timeout = attr.ib(default=30.0)  # CrossHair per_condition_timeout
    path_timeout = attr.ib(default=None)
    bounds = attr.ib(default='')     # human readable statement of the bound
    twin = attr.ib(default=True)
    samples = attr.ib(default=None)  # optional name of `def <samples>(rng, P) -> list of arg dicts`
    kind = attr.ib(default='symbolic')  # 'symbolic' | 'concrete' (side-condition evaluated natively)
    extra_pre = attr.ib(factory=list)   # additional `pre:` expressions (known-finding exclusions)
    allow_sites = attr.ib(factory=list)
    group = attr.ib(default=None)       # evidence aggregation key for very large shard families

    @property
    def harness(self):
        return self.module.rsplit('.', 1)[-1] + ':' + self.fn

    def as_dict(self):
        return attr.asdict(self)


_CALL_RE = re.compile(r'when calling (\w+)\((.*)\)\s*$', re.S)


def _split_returns(text):
    idx = text.rfind(' (which returns')
    if idx >= 0:
        return text[:idx]
    return text


def parse_counterexample(message, fn):
    """CrossHair renders the failing call as text; recover the argument dict"""
    match = _CALL_RE.search(_split_returns(message.strip()))
    if not match:
        return None
    argtext = match.group(2)
    sig = inspect.signature(fn)

    def _cap(*args, **kwargs):
        bound = sig.bind(*args, **kwargs)
        bound.apply_defaults()
        return dict(bound.arguments)

    env = {'_cap': _cap, 'float': float, 'nan': float('nan'), 'inf': float('inf')}
    try:
        return eval('_cap(' + argtext + ')', env)  # pylint: disable=eval-used
    except Exception:  # pylint: disable=broad-except
        return None


def _instrument_solver():
    import z3  # pylint: disable=import-outside-toplevel
    stats = {'queries': 0, 'seconds': 0.0, 'unknown': 0}
    stock = z3.Solver.check

    def check(self, *assumptions):
        start = time.perf_counter()
        res = stock(self, *assumptions)
        stats['seconds'] += time.perf_counter() - start
        stats['queries'] += 1
        if str(res) == 'unknown':
            stats['unknown'] += 1
        return res

    z3.Solver.check = check
    return stats


def _analyze(fn, timeout, path_timeout):
    from crosshair.core_and_libs import analyze_function, run_checkables  # pylint: disable=import-outside-toplevel
    from crosshair.options import AnalysisOptionSet  # pylint: disable=import-outside-toplevel

    counter = collections.Counter()
    options = AnalysisOptionSet(
        per_condition_timeout=timeout,
        per_path_timeout=path_timeout if path_timeout else max(10.0, timeout / 2),
        report_all=True,
        max_uninteresting_iterations=0,
        stats=counter,
    )
    messages = list(run_checkables(analyze_function(fn, options)))
    return messages, counter


def _verdict(messages):
    if not messages:
        return 'INCONCLUSIVE', 'no message'
    states = [m.state.name for m in messages]
    for msg in messages:
        if msg.state.name in ('POST_FAIL', 'EXEC_ERR', 'POST_ERR', 'PRE_INVALID', 'SYNTAX_ERR', 'IMPORT_ERR'):
            return 'REFUTED' if msg.state.name in ('POST_FAIL', 'EXEC_ERR') else 'ERROR', msg.message
    if all(state == 'CONFIRMED' for state in states):
        return 'CONFIRMED', ''
    return 'INCONCLUSIVE', '; '.join('%s %s' % (m.state.name, m.message) for m in messages)[:300]


def _doc_with_pre(fn, extra_pre):
    lines = ['    pre: %s' % expr for expr in extra_pre]
    lines.append('    post: _')
    return '\n' + '\n'.join(lines) + '\n    '


def shard_worker(shard_d, conn):
    """runs in a forked child"""
    result = {'label': shard_d['label'], 'verdict': 'ERROR', 'message': '', 'args': None,
              'paths': 0, 'queries': 0, 'solver_s': 0.0, 'wall': 0.0, 'twin': None, 'masks': []}
    start = time.time()
    try:
        from symcheck import chx  # pylint: disable=import-outside-toplevel
        chx.install()
        stats = _instrument_solver()
        module = importlib.import_module(shard_d['module'])
        module.P = dict(shard_d['params'])
        api.TWIN = False
        api.ALLOW_SITES = set(tuple(site) for site in shard_d['allow_sites'])
        random.seed(int(os.environ.get('VERIF_SEED', '0')))
        fn = getattr(module, shard_d['fn'])
        if hasattr(module, 'setup'):
            module.setup(module.P)
        fn.__doc__ = _doc_with_pre(fn, shard_d['extra_pre'])
        messages, counter = _analyze(fn, shard_d['timeout'], shard_d['path_timeout'])
        verdict, message = _verdict(messages)
        result.update(verdict=verdict, message=message[:3000], paths=int(counter.get('num_paths', 0)))
        if verdict == 'REFUTED':
            cex = parse_counterexample(message, fn)
            result['args'] = api.encode_args(cex) if cex is not None else None
        if verdict == 'CONFIRMED' and shard_d['twin']:
            api.TWIN = True
            tmsgs, tcounter = _analyze(fn, min(shard_d['timeout'], 60.0), shard_d['path_timeout'])
            tverdict, tmsg = _verdict(tmsgs)
            if tverdict == 'REFUTED' and 'Reached' in tmsg:
                result['twin'] = 'reachable'
            elif tverdict == 'CONFIRMED':
                result['twin'] = 'unreachable'
            else:
                result['twin'] = 'unknown: ' + tmsg[:200]
            result['paths'] += int(tcounter.get('num_paths', 0))
            api.TWIN = False
        result.update(queries=stats['queries'], solver_s=round(stats['seconds'], 3),
                      solver_unknown=stats['unknown'], masks=sorted(chx.MASKS_SEEN))
    except BaseException as exc:  # pylint: disable=broad-except
        result['verdict'] = 'ERROR'
        result['message'] = ('%s: %s\n%s' % (type(exc).__name__, exc, traceback.format_exc()))[-3000:]
    result['wall'] = round(time.time() - start, 2)
    try:
        conn.send(json.dumps(result, default=repr))
    finally:
        conn.close()


def run_shards(shards, progress=None):
    """run all shards, at most NPROC at a time; returns {label: result}"""
    ctx = multiprocessing.get_context('fork')
    pending = list(shards)
    running = {}
    results = {}
    while pending or running:
        while pending and len(running) < NPROC:
            shard = pending.pop(0)
            parent_conn, child_conn = ctx.Pipe(duplex=False)
            proc = ctx.Process(target=shard_worker, args=(shard.as_dict(), child_conn))
            proc.start()
            child_conn.close()
            hard = shard.timeout * 2.5 + 60
            running[shard.label] = (proc, parent_conn, time.time() + hard, shard)
        time.sleep(0.02)
        for label in list(running):
            proc, conn, deadline, shard = running[label]
            res = None
            if conn.poll():
                try:
                    res = json.loads(conn.recv())
                except (EOFError, OSError):
                    res = {'label': label, 'verdict': 'ERROR', 'message': 'worker died', 'args': None,
                           'paths': 0, 'queries': 0, 'solver_s': 0.0, 'wall': 0.0, 'twin': None, 'masks': []}
                proc.join(5)
            elif not proc.is_alive():
                proc.join()
                res = {'label': label, 'verdict': 'ERROR',
                       'message': 'worker exited with code %s' % proc.exitcode, 'args': None,
                       'paths': 0, 'queries': 0, 'solver_s': 0.0, 'wall': 0.0, 'twin': None, 'masks': []}
            elif time.time() > deadline:
                proc.kill()
                proc.join()
                res = {'label': label, 'verdict': 'INCONCLUSIVE', 'message': 'hard deadline', 'args': None,
                       'paths': 0, 'queries': 0, 'solver_s': 0.0, 'wall': round(shard.timeout * 2.5 + 60, 1),
                       'twin': None, 'masks': []}
            if res is not None:
                conn.close()
                del running[label]
                results[label] = res
                if progress:
                    progress(shard, res)
    return results


def trace_functions(fn, kwargs):
    """names of /repo functions entered by a native run (for evidence)"""
    prefix = os.path.join(api.REPO, 'cryptoparser') + os.sep
    seen = set()

    def prof(frame, event, _arg):
        if event == 'call':
            code = frame.f_code
            if code.co_filename.startswith(prefix):
                seen.add(getattr(code, 'co_qualname', code.co_name))

    sys.setprofile(prof)
    try:
        fn(**kwargs)
    except Exception:  # pylint: disable=broad-except
        pass
    finally:
        sys.setprofile(None)
    return sorted(seen)
